//! Engine E1 "codec": neutral packet model, generators, adapters to the four codecs under
//! test, an independent reference framer/encoder/decoder, and the oracles of C04 and C05.
//!
//! Entry points meant for reuse (fuzz targets, C20):
//!   * `decode_oracle(kind, max, bytes, splits)`  — C05 oracle on one byte stream
//!   * `roundtrip_from_bytes(bytes)`              — bytes -> (if a decoder accepts) re-encode -> decode -> equal
//!   * `roundtrip_oracle(ver, &m, ..)`            — C04 oracle on one packet value

#![allow(dead_code, unused_imports)]
pub mod adapt;
pub mod gen;
pub mod model;
pub mod mutate;
pub mod oracle;
pub mod reference;

use crate::engine::{guard, Failure};
use bytes::BytesMut;
use model::{Ver, M};
use serde::{Deserialize, Serialize};

pub use oracle::{decode_oracle, known_region_c05, roundtrip_from_bytes, roundtrip_oracle};

/// The four codecs under test
#[derive(Clone, Copy, Debug, PartialEq, Eq, Hash, Serialize, Deserialize)]
pub enum Kind {
    ClientV4,
    ClientV5,
    BrokerV4,
    BrokerV5,
}

pub const KINDS: [Kind; 4] = [Kind::ClientV4, Kind::ClientV5, Kind::BrokerV4, Kind::BrokerV5];

impl Kind {
    pub fn name(self) -> &'static str {
        match self {
            Kind::ClientV4 => "client_v4",
            Kind::ClientV5 => "client_v5",
            Kind::BrokerV4 => "broker_v4",
            Kind::BrokerV5 => "broker_v5",
        }
    }
    pub fn ver(self) -> Ver {
        match self {
            Kind::ClientV4 | Kind::BrokerV4 => Ver::V4,
            _ => Ver::V5,
        }
    }
    pub fn is_client(self) -> bool {
        matches!(self, Kind::ClientV4 | Kind::ClientV5)
    }
    pub fn client(ver: Ver) -> Kind {
        match ver {
            Ver::V4 => Kind::ClientV4,
            Ver::V5 => Kind::ClientV5,
        }
    }
    pub fn broker(ver: Ver) -> Kind {
        match ver {
            Ver::V4 => Kind::BrokerV4,
            Ver::V5 => Kind::BrokerV5,
        }
    }
}

/// Outcome of one decode call
#[derive(Clone, Debug, PartialEq)]
pub enum Out<P> {
    Packet(P),
    /// the decoder asks for more bytes
    NeedMore,
    /// (error variant name, rendered error)
    Error(String, String),
}

fn variant_name<E: std::fmt::Debug>(e: &E) -> String {
    let s = format!("{e:?}");
    s.split(|c: char| !(c.is_alphanumeric() || c == '_')).next().unwrap_or("").to_string()
}

/// Uniform access to one codec. `max == usize::MAX` means "no limit".
pub trait Codec {
    type P: Clone + std::fmt::Debug + PartialEq;
    const KIND: Kind;
    fn to(m: &M) -> Option<Self::P>;
    fn from(p: &Self::P) -> Option<M>;
    /// Appends the encoding to `out`; Ok(returned size)
    fn encode(p: &Self::P, out: &mut BytesMut) -> Result<usize, String>;
    /// `size()` of the packet where the codec has one
    fn size(p: &Self::P) -> Option<usize>;
    fn decode(buf: &mut BytesMut, max: usize) -> Out<Self::P>;
    /// Chunk-by-chunk run through the codec's own stream driver (tokio_util `Framed` with the
    /// client's `Codec`, or rumqttd's `Network::read`/`readv`) over an in-memory duplex
    fn stream_run(max: usize, chunks: &[&[u8]], knob: u8) -> Result<oracle::Run<Self::P>, Failure>;
}

pub struct C4;
pub struct C5;
pub struct D4;
pub struct D5;

impl Codec for C4 {
    type P = rumqttc::mqttbytes::v4::Packet;
    const KIND: Kind = Kind::ClientV4;
    fn to(m: &M) -> Option<Self::P> {
        adapt::c4::to(m)
    }
    fn from(p: &Self::P) -> Option<M> {
        adapt::c4::from(p)
    }
    fn encode(p: &Self::P, out: &mut BytesMut) -> Result<usize, String> {
        p.write(out, usize::MAX).map_err(|e| format!("{e:?}"))
    }
    fn size(p: &Self::P) -> Option<usize> {
        Some(p.size())
    }
    fn decode(buf: &mut BytesMut, max: usize) -> Out<Self::P> {
        use rumqttc::mqttbytes::Error;
        match Self::P::read(buf, max) {
            Ok(p) => Out::Packet(p),
            Err(Error::InsufficientBytes(_)) => Out::NeedMore,
            Err(e) => Out::Error(variant_name(&e), e.to_string()),
        }
    }
    fn stream_run(max: usize, chunks: &[&[u8]], _knob: u8) -> Result<oracle::Run<Self::P>, Failure> {
        let codec = rumqttc::mqttbytes::v4::Codec { max_incoming_size: max, max_outgoing_size: usize::MAX };
        oracle::framed_run::<Self, _>(codec, chunks, |e| match e {
            rumqttc::mqttbytes::Error::Io(_) => None,
            e => Some((variant_name(e), e.to_string())),
        })
    }
}

fn max_u32(max: usize) -> Option<u32> {
    if max > u32::MAX as usize {
        None
    } else {
        Some(max as u32)
    }
}

impl Codec for C5 {
    type P = rumqttc::v5::mqttbytes::v5::Packet;
    const KIND: Kind = Kind::ClientV5;
    fn to(m: &M) -> Option<Self::P> {
        adapt::c5::to(m)
    }
    fn from(p: &Self::P) -> Option<M> {
        adapt::c5::from(p)
    }
    fn encode(p: &Self::P, out: &mut BytesMut) -> Result<usize, String> {
        p.write(out, None).map_err(|e| format!("{e:?}"))
    }
    fn size(p: &Self::P) -> Option<usize> {
        Some(p.size())
    }
    fn decode(buf: &mut BytesMut, max: usize) -> Out<Self::P> {
        use rumqttc::v5::mqttbytes::Error;
        match Self::P::read(buf, max_u32(max)) {
            Ok(p) => Out::Packet(p),
            Err(Error::InsufficientBytes(_)) => Out::NeedMore,
            Err(e) => Out::Error(variant_name(&e), e.to_string()),
        }
    }
    fn stream_run(max: usize, chunks: &[&[u8]], _knob: u8) -> Result<oracle::Run<Self::P>, Failure> {
        let codec = rumqttc::v5::mqttbytes::v5::Codec { max_incoming_size: max_u32(max), max_outgoing_size: None };
        oracle::framed_run::<Self, _>(codec, chunks, |e| match e {
            rumqttc::v5::mqttbytes::Error::Io(_) => None,
            e => Some((variant_name(e), e.to_string())),
        })
    }
}

fn broker_decode<Pr: rumqttd::protocol::Protocol>(mut p: Pr, buf: &mut BytesMut, max: usize) -> Out<rumqttd::protocol::Packet> {
    use rumqttd::protocol::Error;
    match p.read_mut(buf, max) {
        Ok(p) => Out::Packet(p),
        Err(Error::InsufficientBytes(_)) => Out::NeedMore,
        Err(e) => Out::Error(variant_name(&e), e.to_string()),
    }
}

impl Codec for D4 {
    type P = rumqttd::protocol::Packet;
    const KIND: Kind = Kind::BrokerV4;
    fn to(m: &M) -> Option<Self::P> {
        adapt::d::to(Ver::V4, m)
    }
    fn from(p: &Self::P) -> Option<M> {
        adapt::d::from(Ver::V4, p)
    }
    fn encode(p: &Self::P, out: &mut BytesMut) -> Result<usize, String> {
        use rumqttd::protocol::Protocol;
        rumqttd::protocol::v4::V4.write(p.clone(), out).map_err(|e| format!("{e:?}"))
    }
    fn size(_p: &Self::P) -> Option<usize> {
        None
    }
    fn decode(buf: &mut BytesMut, max: usize) -> Out<Self::P> {
        broker_decode(rumqttd::protocol::v4::V4, buf, max)
    }
    fn stream_run(max: usize, chunks: &[&[u8]], knob: u8) -> Result<oracle::Run<Self::P>, Failure> {
        oracle::network_run::<Self, _>(rumqttd::protocol::v4::V4, max, chunks, knob)
    }
}

impl Codec for D5 {
    type P = rumqttd::protocol::Packet;
    const KIND: Kind = Kind::BrokerV5;
    fn to(m: &M) -> Option<Self::P> {
        adapt::d::to(Ver::V5, m)
    }
    fn from(p: &Self::P) -> Option<M> {
        adapt::d::from(Ver::V5, p)
    }
    fn encode(p: &Self::P, out: &mut BytesMut) -> Result<usize, String> {
        use rumqttd::protocol::Protocol;
        rumqttd::protocol::v5::V5.write(p.clone(), out).map_err(|e| format!("{e:?}"))
    }
    fn size(_p: &Self::P) -> Option<usize> {
        None
    }
    fn decode(buf: &mut BytesMut, max: usize) -> Out<Self::P> {
        broker_decode(rumqttd::protocol::v5::V5, buf, max)
    }
    fn stream_run(max: usize, chunks: &[&[u8]], knob: u8) -> Result<oracle::Run<Self::P>, Failure> {
        oracle::network_run::<Self, _>(rumqttd::protocol::v5::V5, max, chunks, knob)
    }
}

/// Calls `$body` with the codec type bound to `$K`
#[macro_export]
macro_rules! with_codec {
    ($kind:expr, $K:ident => $body:expr) => {
        match $kind {
            $crate::codec::Kind::ClientV4 => {
                type $K = $crate::codec::C4;
                $body
            }
            $crate::codec::Kind::ClientV5 => {
                type $K = $crate::codec::C5;
                $body
            }
            $crate::codec::Kind::BrokerV4 => {
                type $K = $crate::codec::D4;
                $body
            }
            $crate::codec::Kind::BrokerV5 => {
                type $K = $crate::codec::D5;
                $body
            }
        }
    };
}

/// Encodes `m` with codec `K` under `guard` (a panic is a Failure); Ok(None) when `K` cannot
/// express `m`
pub fn encode_with<K: Codec>(m: &M) -> Result<Option<(K::P, Vec<u8>, Result<usize, String>)>, Failure> {
    let Some(p) = K::to(m) else { return Ok(None) };
    let mut out = BytesMut::new();
    let r = guard(&format!("encode:{}", K::KIND.name()), || K::encode(&p, &mut out))?;
    Ok(Some((p, out.to_vec(), r)))
}
