//! Reference framer, encoder and decoder written from the MQTT 3.1.1 / MQTT 5.0
//! specifications; shares no code with rumqttc / rumqttd.

use super::model::*;

// ---------------------------------------------------------------------------------------
// framer

#[derive(Clone, Copy, Debug, PartialEq, Eq)]
pub enum Header {
    /// fewer bytes than a complete fixed header
    Incomplete,
    /// fourth length byte still has the continuation bit
    Malformed,
    Complete { byte1: u8, remaining: usize, header_len: usize },
}

impl Header {
    pub fn frame_len(&self) -> Option<usize> {
        match self {
            Header::Complete { remaining, header_len, .. } => Some(remaining + header_len),
            _ => None,
        }
    }
}

/// Variable byte integer at the start of `b` (MQTT 5 §1.5.5): Ok((value, bytes used))
#[derive(Clone, Copy, Debug, PartialEq, Eq)]
pub enum VarInt {
    Ok(usize, usize),
    Truncated,
    Malformed,
}

pub fn varint_at(b: &[u8]) -> VarInt {
    let mut value = 0usize;
    for i in 0..4 {
        let Some(&byte) = b.get(i) else { return VarInt::Truncated };
        value |= ((byte & 0x7f) as usize) << (7 * i);
        if byte & 0x80 == 0 {
            return VarInt::Ok(value, i + 1);
        }
    }
    VarInt::Malformed
}

pub fn parse_header(b: &[u8]) -> Header {
    if b.is_empty() {
        return Header::Incomplete;
    }
    match varint_at(&b[1..]) {
        VarInt::Ok(remaining, n) => Header::Complete { byte1: b[0], remaining, header_len: 1 + n },
        VarInt::Truncated => Header::Incomplete,
        VarInt::Malformed => Header::Malformed,
    }
}

pub fn put_varint(out: &mut Vec<u8>, mut v: usize) {
    assert!(v <= 268_435_455);
    loop {
        let mut byte = (v % 128) as u8;
        v /= 128;
        if v > 0 {
            byte |= 0x80;
        }
        out.push(byte);
        if v == 0 {
            break;
        }
    }
}

pub fn varint_width(v: usize) -> usize {
    match v {
        0..=127 => 1,
        128..=16_383 => 2,
        16_384..=2_097_151 => 3,
        _ => 4,
    }
}

// ---------------------------------------------------------------------------------------
// encoder (one legal wire form per packet; properties in ascending identifier order)

fn put_u16(out: &mut Vec<u8>, v: u16) {
    out.extend_from_slice(&v.to_be_bytes());
}
fn put_u32(out: &mut Vec<u8>, v: u32) {
    out.extend_from_slice(&v.to_be_bytes());
}
fn put_bytes(out: &mut Vec<u8>, b: &[u8]) {
    assert!(b.len() <= 65535);
    put_u16(out, b.len() as u16);
    out.extend_from_slice(b);
}
fn put_str(out: &mut Vec<u8>, s: &Txt) {
    put_bytes(out, s.get().as_bytes());
}

pub fn encode_props_body(p: &Props) -> Vec<u8> {
    let mut o = Vec::new();
    let b = |o: &mut Vec<u8>, id: u8, v: Option<u8>| {
        if let Some(v) = v {
            o.push(id);
            o.push(v);
        }
    };
    let w = |o: &mut Vec<u8>, id: u8, v: Option<u16>| {
        if let Some(v) = v {
            o.push(id);
            put_u16(o, v);
        }
    };
    let d = |o: &mut Vec<u8>, id: u8, v: Option<u32>| {
        if let Some(v) = v {
            o.push(id);
            put_u32(o, v);
        }
    };
    let s = |o: &mut Vec<u8>, id: u8, v: &Option<Txt>| {
        if let Some(v) = v {
            o.push(id);
            put_str(o, v);
        }
    };
    let bin = |o: &mut Vec<u8>, id: u8, v: &Option<Bin>| {
        if let Some(v) = v {
            o.push(id);
            put_bytes(o, &v.get());
        }
    };
    b(&mut o, 1, p.payload_format);
    d(&mut o, 2, p.message_expiry);
    s(&mut o, 3, &p.content_type);
    s(&mut o, 8, &p.response_topic);
    bin(&mut o, 9, &p.correlation_data);
    for id in &p.subscription_ids {
        o.push(11);
        put_varint(&mut o, *id as usize);
    }
    d(&mut o, 17, p.session_expiry);
    s(&mut o, 18, &p.assigned_client_id);
    w(&mut o, 19, p.server_keep_alive);
    s(&mut o, 21, &p.auth_method);
    bin(&mut o, 22, &p.auth_data);
    b(&mut o, 23, p.request_problem_info);
    d(&mut o, 24, p.will_delay);
    b(&mut o, 25, p.request_response_info);
    s(&mut o, 26, &p.response_info);
    s(&mut o, 28, &p.server_reference);
    s(&mut o, 31, &p.reason_string);
    w(&mut o, 33, p.receive_max);
    w(&mut o, 34, p.topic_alias_max);
    w(&mut o, 35, p.topic_alias);
    b(&mut o, 36, p.max_qos);
    b(&mut o, 37, p.retain_available);
    for (k, v) in &p.user {
        o.push(38);
        put_str(&mut o, k);
        put_str(&mut o, v);
    }
    d(&mut o, 39, p.max_packet_size);
    b(&mut o, 40, p.wildcard_sub_available);
    b(&mut o, 41, p.sub_ids_available);
    b(&mut o, 42, p.shared_sub_available);
    o
}

fn put_props(out: &mut Vec<u8>, ver: Ver, p: &Props) {
    if ver == Ver::V5 {
        let body = encode_props_body(p);
        put_varint(out, body.len());
        out.extend_from_slice(&body);
    }
}

/// Variable header + payload of `m`
pub fn encode_body(ver: Ver, m: &M) -> (u8, Vec<u8>) {
    let mut o = Vec::new();
    let v5 = ver == Ver::V5;
    let byte1 = match m {
        M::Connect(c) => {
            put_bytes(&mut o, b"MQTT");
            o.push(if v5 { 5 } else { 4 });
            let mut flags = 0u8;
            if c.clean {
                flags |= 0x02;
            }
            if let Some(w) = &c.will {
                flags |= 0x04 | (w.qos << 3) | ((w.retain as u8) << 5);
            }
            if let Some(l) = &c.login {
                flags |= 0x80;
                if !l.password.is_empty() {
                    flags |= 0x40;
                }
            }
            o.push(flags);
            put_u16(&mut o, c.keep_alive);
            put_props(&mut o, ver, &c.props);
            put_str(&mut o, &c.client_id);
            if let Some(w) = &c.will {
                put_props(&mut o, ver, &w.props);
                put_str(&mut o, &w.topic);
                put_bytes(&mut o, &w.message.get());
            }
            if let Some(l) = &c.login {
                put_str(&mut o, &l.username);
                if !l.password.is_empty() {
                    put_str(&mut o, &l.password);
                }
            }
            0x10
        }
        M::ConnAck(c) => {
            o.push(c.session_present as u8);
            o.push(c.code);
            put_props(&mut o, ver, &c.props);
            0x20
        }
        M::Publish(p) => {
            put_str(&mut o, &p.topic);
            if p.qos > 0 {
                put_u16(&mut o, p.pkid);
            }
            put_props(&mut o, ver, &p.props);
            o.extend_from_slice(&p.payload.get());
            0x30 | ((p.dup as u8) << 3) | (p.qos << 1) | p.retain as u8
        }
        M::PubAck(a) | M::PubRec(a) | M::PubRel(a) | M::PubComp(a) => {
            put_u16(&mut o, a.pkid);
            if v5 && !(a.reason == 0 && a.props.is_empty()) {
                o.push(a.reason);
                put_props(&mut o, ver, &a.props);
            }
            match m {
                M::PubAck(_) => 0x40,
                M::PubRec(_) => 0x50,
                M::PubRel(_) => 0x62,
                _ => 0x70,
            }
        }
        M::Subscribe(s) => {
            put_u16(&mut o, s.pkid);
            put_props(&mut o, ver, &s.props);
            for f in &s.filters {
                put_str(&mut o, &f.path);
                let mut opt = f.qos;
                if v5 {
                    opt |= ((f.nolocal as u8) << 2) | ((f.preserve_retain as u8) << 3) | (f.retain_rule << 4);
                }
                o.push(opt);
            }
            0x82
        }
        M::SubAck(s) => {
            put_u16(&mut o, s.pkid);
            put_props(&mut o, ver, &s.props);
            o.extend_from_slice(&s.codes);
            0x90
        }
        M::Unsubscribe(u) => {
            put_u16(&mut o, u.pkid);
            put_props(&mut o, ver, &u.props);
            for f in &u.filters {
                put_str(&mut o, f);
            }
            0xA2
        }
        M::UnsubAck(u) => {
            put_u16(&mut o, u.pkid);
            if v5 {
                put_props(&mut o, ver, &u.props);
                o.extend_from_slice(&u.reasons);
            }
            0xB0
        }
        M::PingReq => 0xC0,
        M::PingResp => 0xD0,
        M::Disconnect(d) => {
            if v5 && !(d.reason == 0 && d.props.is_empty()) {
                o.push(d.reason);
                put_props(&mut o, ver, &d.props);
            }
            0xE0
        }
    };
    (byte1, o)
}

pub fn remaining_len(ver: Ver, m: &M) -> usize {
    encode_body(ver, m).1.len()
}

pub fn encode(ver: Ver, m: &M) -> Vec<u8> {
    let (byte1, body) = encode_body(ver, m);
    let mut out = Vec::with_capacity(body.len() + 5);
    out.push(byte1);
    put_varint(&mut out, body.len());
    out.extend_from_slice(&body);
    out
}

// ---------------------------------------------------------------------------------------
// decoder (accepts every legal wire form of the packet types the model covers)

struct Cur<'a> {
    b: &'a [u8],
    p: usize,
}

type R<T> = Result<T, String>;

impl<'a> Cur<'a> {
    fn left(&self) -> usize {
        self.b.len() - self.p
    }
    fn u8(&mut self) -> R<u8> {
        let v = *self.b.get(self.p).ok_or("truncated (u8)")?;
        self.p += 1;
        Ok(v)
    }
    fn u16(&mut self) -> R<u16> {
        if self.left() < 2 {
            return Err("truncated (u16)".into());
        }
        let v = u16::from_be_bytes([self.b[self.p], self.b[self.p + 1]]);
        self.p += 2;
        Ok(v)
    }
    fn u32(&mut self) -> R<u32> {
        if self.left() < 4 {
            return Err("truncated (u32)".into());
        }
        let v = u32::from_be_bytes(self.b[self.p..self.p + 4].try_into().unwrap());
        self.p += 4;
        Ok(v)
    }
    fn varint(&mut self) -> R<usize> {
        match varint_at(&self.b[self.p..]) {
            VarInt::Ok(v, n) => {
                self.p += n;
                Ok(v)
            }
            VarInt::Truncated => Err("truncated (varint)".into()),
            VarInt::Malformed => Err("malformed varint".into()),
        }
    }
    fn bytes(&mut self) -> R<&'a [u8]> {
        let n = self.u16()? as usize;
        if self.left() < n {
            return Err("truncated (binary/string)".into());
        }
        let s = &self.b[self.p..self.p + n];
        self.p += n;
        Ok(s)
    }
    fn bin(&mut self) -> R<Bin> {
        Ok(Bin::Lit(self.bytes()?.to_vec()))
    }
    fn txt(&mut self) -> R<Txt> {
        let s = std::str::from_utf8(self.bytes()?).map_err(|_| "string is not UTF-8")?;
        Ok(Txt::lit(s))
    }
    fn rest(&mut self) -> &'a [u8] {
        let s = &self.b[self.p..];
        self.p = self.b.len();
        s
    }
}

fn set<T>(slot: &mut Option<T>, v: T, id: u8) -> R<()> {
    if slot.is_some() {
        return Err(format!("property {id} appears twice"));
    }
    *slot = Some(v);
    Ok(())
}

fn decode_props(c: &mut Cur) -> R<Props> {
    let len = c.varint()?;
    if c.left() < len {
        return Err("property length exceeds packet".into());
    }
    let end = c.p + len;
    let mut sub = Cur { b: &c.b[..end], p: c.p };
    let mut p = Props::default();
    while sub.left() > 0 {
        let id = sub.u8()?;
        match id {
            1 => set(&mut p.payload_format, sub.u8()?, id)?,
            2 => set(&mut p.message_expiry, sub.u32()?, id)?,
            3 => set(&mut p.content_type, sub.txt()?, id)?,
            8 => set(&mut p.response_topic, sub.txt()?, id)?,
            9 => set(&mut p.correlation_data, sub.bin()?, id)?,
            11 => p.subscription_ids.push(sub.varint()? as u32),
            17 => set(&mut p.session_expiry, sub.u32()?, id)?,
            18 => set(&mut p.assigned_client_id, sub.txt()?, id)?,
            19 => set(&mut p.server_keep_alive, sub.u16()?, id)?,
            21 => set(&mut p.auth_method, sub.txt()?, id)?,
            22 => set(&mut p.auth_data, sub.bin()?, id)?,
            23 => set(&mut p.request_problem_info, sub.u8()?, id)?,
            24 => set(&mut p.will_delay, sub.u32()?, id)?,
            25 => set(&mut p.request_response_info, sub.u8()?, id)?,
            26 => set(&mut p.response_info, sub.txt()?, id)?,
            28 => set(&mut p.server_reference, sub.txt()?, id)?,
            31 => set(&mut p.reason_string, sub.txt()?, id)?,
            33 => set(&mut p.receive_max, sub.u16()?, id)?,
            34 => set(&mut p.topic_alias_max, sub.u16()?, id)?,
            35 => set(&mut p.topic_alias, sub.u16()?, id)?,
            36 => set(&mut p.max_qos, sub.u8()?, id)?,
            37 => set(&mut p.retain_available, sub.u8()?, id)?,
            38 => {
                let k = sub.txt()?;
                let v = sub.txt()?;
                p.user.push((k, v));
            }
            39 => set(&mut p.max_packet_size, sub.u32()?, id)?,
            40 => set(&mut p.wildcard_sub_available, sub.u8()?, id)?,
            41 => set(&mut p.sub_ids_available, sub.u8()?, id)?,
            42 => set(&mut p.shared_sub_available, sub.u8()?, id)?,
            other => return Err(format!("unknown property identifier {other}")),
        }
    }
    c.p = end;
    Ok(p)
}

fn props_if_v5(c: &mut Cur, ver: Ver) -> R<Props> {
    if ver == Ver::V5 {
        decode_props(c)
    } else {
        Ok(Props::default())
    }
}

/// Decodes exactly one frame (`frame` must be the complete frame, nothing more)
pub fn decode(ver: Ver, frame: &[u8]) -> R<M> {
    let Header::Complete { byte1, remaining, header_len } = parse_header(frame) else {
        return Err("incomplete or malformed fixed header".into());
    };
    if frame.len() != header_len + remaining {
        return Err(format!("frame is {} bytes, header declares {}", frame.len(), header_len + remaining));
    }
    let v5 = ver == Ver::V5;
    let flags = byte1 & 0x0f;
    let mut c = Cur { b: frame, p: header_len };
    let need_flags = |want: u8| -> R<()> {
        if flags != want {
            Err(format!("fixed header flags {flags:#x}, the specification requires {want:#x}"))
        } else {
            Ok(())
        }
    };
    let m = match byte1 >> 4 {
        1 => {
            need_flags(0)?;
            if c.bytes()? != b"MQTT" {
                return Err("protocol name".into());
            }
            let level = c.u8()?;
            if level != if v5 { 5 } else { 4 } {
                return Err(format!("protocol level {level}"));
            }
            let f = c.u8()?;
            if f & 1 != 0 {
                return Err("reserved connect flag set".into());
            }
            let keep_alive = c.u16()?;
            let props = props_if_v5(&mut c, ver)?;
            let client_id = c.txt()?;
            let will = if f & 0x04 != 0 {
                let wprops = props_if_v5(&mut c, ver)?;
                let topic = c.txt()?;
                let message = c.bin()?;
                let qos = (f >> 3) & 3;
                if qos == 3 {
                    return Err("will qos 3".into());
                }
                Some(Will { topic, message, qos, retain: f & 0x20 != 0, props: wprops })
            } else {
                if f & 0x38 != 0 {
                    return Err("will qos/retain without will flag".into());
                }
                None
            };
            let username = if f & 0x80 != 0 { Some(c.txt()?) } else { None };
            let password = if f & 0x40 != 0 { Some(c.txt()?) } else { None };
            let login = match (username, password) {
                (None, None) => None,
                (u, p) => Some(Login {
                    username: u.unwrap_or_else(|| Txt::lit("")),
                    password: p.unwrap_or_else(|| Txt::lit("")),
                }),
            };
            M::Connect(Connect { keep_alive, client_id, clean: f & 2 != 0, will, login, props })
        }
        2 => {
            need_flags(0)?;
            let ack = c.u8()?;
            if ack & 0xfe != 0 {
                return Err("reserved connack flags".into());
            }
            let code = c.u8()?;
            let props = props_if_v5(&mut c, ver)?;
            M::ConnAck(ConnAck { session_present: ack & 1 == 1, code, props })
        }
        3 => {
            let qos = (flags >> 1) & 3;
            if qos == 3 {
                return Err("publish qos 3".into());
            }
            let topic = c.txt()?;
            let pkid = if qos > 0 { c.u16()? } else { 0 };
            let props = props_if_v5(&mut c, ver)?;
            let payload = Bin::Lit(c.rest().to_vec());
            M::Publish(Publish { dup: flags & 8 != 0, qos, retain: flags & 1 != 0, topic, pkid, payload, props })
        }
        t @ 4..=7 => {
            need_flags(if t == 6 { 2 } else { 0 })?;
            let pkid = c.u16()?;
            let (reason, props) = if v5 && c.left() > 0 {
                let r = c.u8()?;
                let p = if c.left() > 0 { decode_props(&mut c)? } else { Props::default() };
                (r, p)
            } else {
                (0, Props::default())
            };
            let a = Ack { pkid, reason, props };
            match t {
                4 => M::PubAck(a),
                5 => M::PubRec(a),
                6 => M::PubRel(a),
                _ => M::PubComp(a),
            }
        }
        8 => {
            need_flags(2)?;
            let pkid = c.u16()?;
            let props = props_if_v5(&mut c, ver)?;
            let mut filters = Vec::new();
            while c.left() > 0 {
                let path = c.txt()?;
                let o = c.u8()?;
                if !v5 && o & 0xfc != 0 {
                    return Err("reserved subscribe option bits".into());
                }
                if o & 0xc0 != 0 || o & 3 == 3 || (o >> 4) & 3 == 3 {
                    return Err("subscribe options".into());
                }
                filters.push(Filter {
                    path,
                    qos: o & 3,
                    nolocal: o & 4 != 0,
                    preserve_retain: o & 8 != 0,
                    retain_rule: (o >> 4) & 3,
                });
            }
            M::Subscribe(Subscribe { pkid, filters, props })
        }
        9 => {
            need_flags(0)?;
            let pkid = c.u16()?;
            let props = props_if_v5(&mut c, ver)?;
            M::SubAck(SubAck { pkid, codes: c.rest().to_vec(), props })
        }
        10 => {
            need_flags(2)?;
            let pkid = c.u16()?;
            let props = props_if_v5(&mut c, ver)?;
            let mut filters = Vec::new();
            while c.left() > 0 {
                filters.push(c.txt()?);
            }
            M::Unsubscribe(Unsubscribe { pkid, filters, props })
        }
        11 => {
            need_flags(0)?;
            let pkid = c.u16()?;
            let props = props_if_v5(&mut c, ver)?;
            M::UnsubAck(UnsubAck { pkid, reasons: c.rest().to_vec(), props })
        }
        12 => {
            need_flags(0)?;
            M::PingReq
        }
        13 => {
            need_flags(0)?;
            M::PingResp
        }
        14 => {
            need_flags(0)?;
            let (reason, props) = if v5 && c.left() > 0 {
                let r = c.u8()?;
                let p = if c.left() > 0 { decode_props(&mut c)? } else { Props::default() };
                (r, p)
            } else {
                (0, Props::default())
            };
            M::Disconnect(Disconnect { reason, props })
        }
        t => return Err(format!("packet type {t} is not covered by the model")),
    };
    if c.left() != 0 {
        return Err(format!("{} unparsed bytes at the end of the packet", c.left()));
    }
    Ok(m)
}

// ---------------------------------------------------------------------------------------
// Region predicate for the known finding "v5 decoders report need-more for a variable byte
// integer that is cut off by the end of a complete frame" (see KNOWN_FINDINGS.txt).
//
// A non-validating walk over the MQTT 5 layout of `frame` (a complete frame) that visits
// every position at which a v5 decoder reads a variable byte integer inside the body. It
// follows length fields only; where the walk cannot continue (out of bounds, unknown
// property identifier) it stops. It deliberately continues where a decoder would already
// have rejected the packet, so the set of visited positions is a superset.
pub fn v5_body_varint_cut_off(frame: &[u8]) -> bool {
    let Header::Complete { byte1, remaining, header_len } = parse_header(frame) else {
        return false;
    };
    if frame.len() < header_len + remaining || remaining == 0 {
        return false;
    }
    let b = &frame[..header_len + remaining];
    let end = b.len();
    let mut p = header_len;

    enum W {
        Found,
        Stop,
        Go(usize),
    }
    let skip = |p: usize, n: usize| if p + n <= end { W::Go(p + n) } else { W::Stop };
    let skip_str = |p: usize| {
        if p + 2 > end {
            return W::Stop;
        }
        let n = u16::from_be_bytes([b[p], b[p + 1]]) as usize;
        if p + 2 + n > end {
            W::Stop
        } else {
            W::Go(p + 2 + n)
        }
    };
    let walk_props = |mut p: usize| -> W {
        let plen = match varint_at(&b[p..]) {
            VarInt::Truncated => return W::Found,
            VarInt::Malformed => return W::Stop,
            VarInt::Ok(v, n) => {
                p += n;
                v
            }
        };
        let mut cursor = 0usize;
        while cursor < plen {
            if p >= end {
                return W::Stop;
            }
            let id = b[p];
            p += 1;
            cursor += 1;
            let fixed = |p: usize, n: usize| if p + n <= end { Some(p + n) } else { None };
            match id {
                1 | 23 | 25 | 36 | 37 | 40 | 41 | 42 => match fixed(p, 1) {
                    Some(q) => {
                        p = q;
                        cursor += 1
                    }
                    None => return W::Stop,
                },
                19 | 33 | 34 | 35 => match fixed(p, 2) {
                    Some(q) => {
                        p = q;
                        cursor += 2
                    }
                    None => return W::Stop,
                },
                2 | 17 | 24 | 39 => match fixed(p, 4) {
                    Some(q) => {
                        p = q;
                        cursor += 4
                    }
                    None => return W::Stop,
                },
                3 | 8 | 9 | 18 | 21 | 22 | 26 | 28 | 31 => match skip_str(p) {
                    W::Go(q) => {
                        cursor += q - p;
                        p = q
                    }
                    _ => return W::Stop,
                },
                38 => {
                    for _ in 0..2 {
                        match skip_str(p) {
                            W::Go(q) => {
                                cursor += q - p;
                                p = q
                            }
                            _ => return W::Stop,
                        }
                    }
                }
                11 => match varint_at(&b[p..]) {
                    VarInt::Truncated => return W::Found,
                    VarInt::Malformed => return W::Stop,
                    VarInt::Ok(_, n) => {
                        p += n;
                        cursor += n
                    }
                },
                _ => return W::Stop,
            }
        }
        W::Go(p)
    };
    macro_rules! step {
        ($e:expr) => {
            match $e {
                W::Found => return true,
                W::Stop => return false,
                W::Go(q) => p = q,
            }
        };
    }
    match byte1 >> 4 {
        1 => {
            step!(skip_str(p));
            step!(skip(p, 1));
            if p >= end {
                return false;
            }
            let flags = b[p];
            step!(skip(p, 3));
            step!(walk_props(p));
            step!(skip_str(p));
            if flags & 0x04 != 0 {
                step!(walk_props(p));
            }
            let _ = p;
            false
        }
        3 => {
            step!(skip_str(p));
            if (byte1 >> 1) & 3 != 0 {
                step!(skip(p, 2));
            }
            step!(walk_props(p));
            let _ = p;
            false
        }
        4..=7 => {
            if remaining < 4 {
                return false;
            }
            step!(skip(p, 3));
            step!(walk_props(p));
            let _ = p;
            false
        }
        2 | 8 | 9 | 10 | 11 => {
            step!(skip(p, 2));
            step!(walk_props(p));
            let _ = p;
            false
        }
        14 => {
            if byte1 & 0x0f != 0 {
                return false;
            }
            step!(skip(p, 1));
            step!(walk_props(p));
            let _ = p;
            false
        }
        _ => false,
    }
}

/// Region predicate for the known finding "subscription identifier is counted one byte too
/// long in the property cursor" (v5 PUBLISH/SUBSCRIBE decoders of both crates): true when,
/// walking the properties of a complete v5 PUBLISH frame, a cursor that advances by
/// 1 + 1 + n for an n-byte subscription identifier reaches the declared property length
/// while real property bytes are still unread (those bytes are then taken for payload).
pub fn v5_publish_subid_cursor_skips(frame: &[u8]) -> bool {
    let Header::Complete { byte1, remaining, header_len } = parse_header(frame) else { return false };
    if byte1 >> 4 != 3 || frame.len() < header_len + remaining {
        return false;
    }
    let b = &frame[..header_len + remaining];
    let end = b.len();
    let mut p = header_len;
    if p + 2 > end {
        return false;
    }
    p += 2 + u16::from_be_bytes([b[p], b[p + 1]]) as usize;
    if (byte1 >> 1) & 3 != 0 {
        p += 2;
    }
    if p > end {
        return false;
    }
    let VarInt::Ok(plen, n) = varint_at(&b[p..]) else { return false };
    p += n;
    let (mut real, mut quirk) = (0usize, 0usize);
    while real < plen {
        if quirk >= plen {
            return true;
        }
        if p >= end {
            return false;
        }
        let id = b[p];
        let adv = match id {
            1 | 23 | 25 | 36 | 37 | 40 | 41 | 42 => 1,
            19 | 33 | 34 | 35 => 2,
            2 | 17 | 24 | 39 => 4,
            3 | 8 | 9 | 18 | 21 | 22 | 26 | 28 | 31 => {
                if p + 3 > end {
                    return false;
                }
                2 + u16::from_be_bytes([b[p + 1], b[p + 2]]) as usize
            }
            38 => {
                if p + 3 > end {
                    return false;
                }
                let k = 2 + u16::from_be_bytes([b[p + 1], b[p + 2]]) as usize;
                if p + 1 + k + 2 > end {
                    return false;
                }
                k + 2 + u16::from_be_bytes([b[p + 1 + k], b[p + 2 + k]]) as usize
            }
            11 => match varint_at(&b[(p + 1).min(end)..]) {
                VarInt::Ok(_, n) => {
                    quirk += 1;
                    n
                }
                _ => return false,
            },
            _ => return false,
        };
        p += 1 + adv;
        real += 1 + adv;
        quirk += 1 + adv;
        if p > end {
            return false;
        }
    }
    false
}
