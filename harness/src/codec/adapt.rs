//! Adapters between the neutral model `M` and the packet types of the four codecs.
//!
//! `to_*` returns None when the codec's packet type cannot express `m` (e.g. a v5 reason code
//! in a v4 packet); `from_*` returns None when the decoded packet holds something the model
//! cannot express (non-UTF-8 topic bytes, which only arbitrary-byte inputs can produce).

use super::model as md;
use super::model::{Ack, Bin, Props, Txt, Ver, Will, M};
use bytes::Bytes;

fn txt_of_bytes(b: &[u8]) -> Option<Txt> {
    std::str::from_utf8(b).ok().map(Txt::lit)
}
fn user_to(p: &Props) -> Vec<(String, String)> {
    p.user.iter().map(|(k, v)| (k.get(), v.get())).collect()
}
fn user_from(v: &[(String, String)]) -> Vec<(Txt, Txt)> {
    v.iter().map(|(k, v)| (Txt::lit(k), Txt::lit(v))).collect()
}
fn s(o: &Option<Txt>) -> Option<String> {
    o.as_ref().map(|t| t.get())
}
fn b(o: &Option<Bin>) -> Option<Bytes> {
    o.as_ref().map(|t| Bytes::from(t.get()))
}
fn t(o: &Option<String>) -> Option<Txt> {
    o.as_ref().map(|t| Txt::lit(t))
}
fn bl(o: &Option<Bytes>) -> Option<Bin> {
    o.as_ref().map(|t| Bin::Lit(t.to_vec()))
}
fn ids_to(p: &Props) -> Vec<usize> {
    p.subscription_ids.iter().map(|i| *i as usize).collect()
}
fn ids_from(v: &[usize]) -> Vec<u32> {
    v.iter().map(|i| *i as u32).collect()
}
/// Some(x) unless the property set is empty and the case does not force `Some`
fn opt<T>(p: &Props, x: T) -> Option<T> {
    if p.is_empty() && !p.force_some {
        None
    } else {
        Some(x)
    }
}

// =======================================================================================
pub mod c4 {
    use super::*;
    use rumqttc::mqttbytes::v4::*;
    use rumqttc::mqttbytes::{Protocol, QoS};

    fn qos(q: u8) -> Option<QoS> {
        match q {
            0 => Some(QoS::AtMostOnce),
            1 => Some(QoS::AtLeastOnce),
            2 => Some(QoS::ExactlyOnce),
            _ => None,
        }
    }

    pub fn to(m: &M) -> Option<Packet> {
        if m.prop_popcount() != 0 {
            return None;
        }
        Some(match m {
            M::Connect(c) => Packet::Connect(Connect {
                protocol: Protocol::V4,
                keep_alive: c.keep_alive,
                client_id: c.client_id.get(),
                clean_session: c.clean,
                last_will: match &c.will {
                    Some(w) => Some(LastWill {
                        topic: w.topic.get(),
                        message: Bytes::from(w.message.get()),
                        qos: qos(w.qos)?,
                        retain: w.retain,
                    }),
                    None => None,
                },
                login: c.login.as_ref().map(|l| Login { username: l.username.get(), password: l.password.get() }),
            }),
            M::ConnAck(c) => Packet::ConnAck(ConnAck {
                session_present: c.session_present,
                code: match c.code {
                    0 => ConnectReturnCode::Success,
                    1 => ConnectReturnCode::RefusedProtocolVersion,
                    2 => ConnectReturnCode::BadClientId,
                    3 => ConnectReturnCode::ServiceUnavailable,
                    4 => ConnectReturnCode::BadUserNamePassword,
                    5 => ConnectReturnCode::NotAuthorized,
                    _ => return None,
                },
            }),
            M::Publish(p) => Packet::Publish(Publish {
                dup: p.dup,
                qos: qos(p.qos)?,
                retain: p.retain,
                topic: p.topic.get(),
                pkid: p.pkid,
                payload: Bytes::from(p.payload.get()),
            }),
            M::PubAck(a) if a.reason == 0 => Packet::PubAck(PubAck { pkid: a.pkid }),
            M::PubRec(a) if a.reason == 0 => Packet::PubRec(PubRec { pkid: a.pkid }),
            M::PubRel(a) if a.reason == 0 => Packet::PubRel(PubRel { pkid: a.pkid }),
            M::PubComp(a) if a.reason == 0 => Packet::PubComp(PubComp { pkid: a.pkid }),
            M::Subscribe(sub) => {
                let mut filters = Vec::new();
                for f in &sub.filters {
                    if f.nolocal || f.preserve_retain || f.retain_rule != 0 {
                        return None;
                    }
                    filters.push(SubscribeFilter { path: f.path.get(), qos: qos(f.qos)? });
                }
                Packet::Subscribe(Subscribe { pkid: sub.pkid, filters })
            }
            M::SubAck(sa) => {
                let mut return_codes = Vec::new();
                for c in &sa.codes {
                    return_codes.push(match c {
                        0..=2 => SubscribeReasonCode::Success(qos(*c)?),
                        0x80 => SubscribeReasonCode::Failure,
                        _ => return None,
                    });
                }
                Packet::SubAck(SubAck { pkid: sa.pkid, return_codes })
            }
            M::Unsubscribe(u) => {
                Packet::Unsubscribe(Unsubscribe { pkid: u.pkid, topics: u.filters.iter().map(|f| f.get()).collect() })
            }
            M::UnsubAck(u) if u.reasons.is_empty() => Packet::UnsubAck(UnsubAck { pkid: u.pkid }),
            M::PingReq => Packet::PingReq,
            M::PingResp => Packet::PingResp,
            M::Disconnect(d) if d.reason == 0 => Packet::Disconnect,
            _ => return None,
        })
    }

    pub fn from(p: &Packet) -> Option<M> {
        let ack = |pkid: u16| Ack { pkid, reason: 0, props: Props::default() };
        Some(match p {
            Packet::Connect(c) => {
                if c.protocol != Protocol::V4 {
                    return None;
                }
                M::Connect(md::Connect {
                    keep_alive: c.keep_alive,
                    client_id: Txt::lit(&c.client_id),
                    clean: c.clean_session,
                    will: c.last_will.as_ref().map(|w| Will {
                        topic: Txt::lit(&w.topic),
                        message: Bin::Lit(w.message.to_vec()),
                        qos: w.qos as u8,
                        retain: w.retain,
                        props: Props::default(),
                    }),
                    login: c.login.as_ref().map(|l| md::Login {
                        username: Txt::lit(&l.username),
                        password: Txt::lit(&l.password),
                    }),
                    props: Props::default(),
                })
            }
            Packet::ConnAck(c) => M::ConnAck(md::ConnAck {
                session_present: c.session_present,
                code: match c.code {
                    ConnectReturnCode::Success => 0,
                    ConnectReturnCode::RefusedProtocolVersion => 1,
                    ConnectReturnCode::BadClientId => 2,
                    ConnectReturnCode::ServiceUnavailable => 3,
                    ConnectReturnCode::BadUserNamePassword => 4,
                    ConnectReturnCode::NotAuthorized => 5,
                },
                props: Props::default(),
            }),
            Packet::Publish(p) => M::Publish(md::Publish {
                dup: p.dup,
                qos: p.qos as u8,
                retain: p.retain,
                topic: Txt::lit(&p.topic),
                pkid: p.pkid,
                payload: Bin::Lit(p.payload.to_vec()),
                props: Props::default(),
            }),
            Packet::PubAck(a) => M::PubAck(ack(a.pkid)),
            Packet::PubRec(a) => M::PubRec(ack(a.pkid)),
            Packet::PubRel(a) => M::PubRel(ack(a.pkid)),
            Packet::PubComp(a) => M::PubComp(ack(a.pkid)),
            Packet::Subscribe(sub) => M::Subscribe(md::Subscribe {
                pkid: sub.pkid,
                filters: sub
                    .filters
                    .iter()
                    .map(|f| md::Filter {
                        path: Txt::lit(&f.path),
                        qos: f.qos as u8,
                        nolocal: false,
                        preserve_retain: false,
                        retain_rule: 0,
                    })
                    .collect(),
                props: Props::default(),
            }),
            Packet::SubAck(sa) => M::SubAck(md::SubAck {
                pkid: sa.pkid,
                codes: sa
                    .return_codes
                    .iter()
                    .map(|c| match c {
                        SubscribeReasonCode::Success(q) => *q as u8,
                        SubscribeReasonCode::Failure => 0x80,
                    })
                    .collect(),
                props: Props::default(),
            }),
            Packet::Unsubscribe(u) => M::Unsubscribe(md::Unsubscribe {
                pkid: u.pkid,
                filters: u.topics.iter().map(|f| Txt::lit(f)).collect(),
                props: Props::default(),
            }),
            Packet::UnsubAck(u) => {
                M::UnsubAck(md::UnsubAck { pkid: u.pkid, reasons: vec![], props: Props::default() })
            }
            Packet::PingReq => M::PingReq,
            Packet::PingResp => M::PingResp,
            Packet::Disconnect => M::Disconnect(md::Disconnect { reason: 0, props: Props::default() }),
        })
    }
}

// =======================================================================================
/// Wire values of the reason codes each MQTT 5 packet type may carry (MQTT 5.0 §2.4 table 2-6)
pub mod codes {
    pub const CONNACK_V4: &[u8] = &[0, 1, 2, 3, 4, 5];
    pub const CONNACK_V5: &[u8] = &[
        0x00, 0x80, 0x81, 0x82, 0x83, 0x84, 0x85, 0x86, 0x87, 0x88, 0x89, 0x8A, 0x8C, 0x90, 0x95, 0x97, 0x99, 0x9A,
        0x9B, 0x9C, 0x9D, 0x9F,
    ];
    pub const PUBACK: &[u8] = &[0x00, 0x10, 0x80, 0x83, 0x87, 0x90, 0x91, 0x97, 0x99];
    pub const PUBREL: &[u8] = &[0x00, 0x92];
    pub const SUBACK_V4: &[u8] = &[0, 1, 2, 0x80];
    pub const SUBACK_V5: &[u8] = &[0, 1, 2, 0x80, 0x83, 0x87, 0x8F, 0x91, 0x97, 0x9E, 0xA1, 0xA2];
    pub const UNSUBACK: &[u8] = &[0x00, 0x11, 0x80, 0x83, 0x87, 0x8F, 0x91];
    pub const DISCONNECT: &[u8] = &[
        0x00, 0x04, 0x80, 0x81, 0x82, 0x83, 0x87, 0x89, 0x8B, 0x8D, 0x8E, 0x8F, 0x90, 0x93, 0x94, 0x95, 0x96, 0x97,
        0x98, 0x99, 0x9A, 0x9B, 0x9C, 0x9D, 0x9E, 0x9F, 0xA0, 0xA1, 0xA2,
    ];
}

// =======================================================================================
pub mod c5 {
    use super::*;
    use rumqttc::v5::mqttbytes::v5::*;
    use rumqttc::v5::mqttbytes::QoS;

    fn qos(q: u8) -> Option<QoS> {
        match q {
            0 => Some(QoS::AtMostOnce),
            1 => Some(QoS::AtLeastOnce),
            2 => Some(QoS::ExactlyOnce),
            _ => None,
        }
    }

    macro_rules! table {
        ($to:ident, $from:ident, $ty:ty, $( $code:expr => $variant:path ),* $(,)?) => {
            fn $to(c: u8) -> Option<$ty> { match c { $( $code => Some($variant), )* _ => None } }
            #[allow(unreachable_patterns)]
            fn $from(c: $ty) -> Option<u8> { match c { $( $variant => Some($code), )* _ => None } }
        };
    }
    table!(connack_to, connack_from, ConnectReturnCode,
        0x00 => ConnectReturnCode::Success, 0x80 => ConnectReturnCode::UnspecifiedError,
        0x81 => ConnectReturnCode::MalformedPacket, 0x82 => ConnectReturnCode::ProtocolError,
        0x83 => ConnectReturnCode::ImplementationSpecificError, 0x84 => ConnectReturnCode::UnsupportedProtocolVersion,
        0x85 => ConnectReturnCode::ClientIdentifierNotValid, 0x86 => ConnectReturnCode::BadUserNamePassword,
        0x87 => ConnectReturnCode::NotAuthorized, 0x88 => ConnectReturnCode::ServerUnavailable,
        0x89 => ConnectReturnCode::ServerBusy, 0x8A => ConnectReturnCode::Banned,
        0x8C => ConnectReturnCode::BadAuthenticationMethod, 0x90 => ConnectReturnCode::TopicNameInvalid,
        0x95 => ConnectReturnCode::PacketTooLarge, 0x97 => ConnectReturnCode::QuotaExceeded,
        0x99 => ConnectReturnCode::PayloadFormatInvalid, 0x9A => ConnectReturnCode::RetainNotSupported,
        0x9B => ConnectReturnCode::QoSNotSupported, 0x9C => ConnectReturnCode::UseAnotherServer,
        0x9D => ConnectReturnCode::ServerMoved, 0x9F => ConnectReturnCode::ConnectionRateExceeded);
    table!(puback_to, puback_from, PubAckReason,
        0x00 => PubAckReason::Success, 0x10 => PubAckReason::NoMatchingSubscribers,
        0x80 => PubAckReason::UnspecifiedError, 0x83 => PubAckReason::ImplementationSpecificError,
        0x87 => PubAckReason::NotAuthorized, 0x90 => PubAckReason::TopicNameInvalid,
        0x91 => PubAckReason::PacketIdentifierInUse, 0x97 => PubAckReason::QuotaExceeded,
        0x99 => PubAckReason::PayloadFormatInvalid);
    table!(pubrec_to, pubrec_from, PubRecReason,
        0x00 => PubRecReason::Success, 0x10 => PubRecReason::NoMatchingSubscribers,
        0x80 => PubRecReason::UnspecifiedError, 0x83 => PubRecReason::ImplementationSpecificError,
        0x87 => PubRecReason::NotAuthorized, 0x90 => PubRecReason::TopicNameInvalid,
        0x91 => PubRecReason::PacketIdentifierInUse, 0x97 => PubRecReason::QuotaExceeded,
        0x99 => PubRecReason::PayloadFormatInvalid);
    table!(pubrel_to, pubrel_from, PubRelReason,
        0x00 => PubRelReason::Success, 0x92 => PubRelReason::PacketIdentifierNotFound);
    table!(pubcomp_to, pubcomp_from, PubCompReason,
        0x00 => PubCompReason::Success, 0x92 => PubCompReason::PacketIdentifierNotFound);
    table!(unsuback_to, unsuback_from, UnsubAckReason,
        0x00 => UnsubAckReason::Success, 0x11 => UnsubAckReason::NoSubscriptionExisted,
        0x80 => UnsubAckReason::UnspecifiedError, 0x83 => UnsubAckReason::ImplementationSpecificError,
        0x87 => UnsubAckReason::NotAuthorized, 0x8F => UnsubAckReason::TopicFilterInvalid,
        0x91 => UnsubAckReason::PacketIdentifierInUse);
    table!(disc_to, disc_from, DisconnectReasonCode,
        0x00 => DisconnectReasonCode::NormalDisconnection, 0x04 => DisconnectReasonCode::DisconnectWithWillMessage,
        0x80 => DisconnectReasonCode::UnspecifiedError, 0x81 => DisconnectReasonCode::MalformedPacket,
        0x82 => DisconnectReasonCode::ProtocolError, 0x83 => DisconnectReasonCode::ImplementationSpecificError,
        0x87 => DisconnectReasonCode::NotAuthorized, 0x89 => DisconnectReasonCode::ServerBusy,
        0x8B => DisconnectReasonCode::ServerShuttingDown, 0x8D => DisconnectReasonCode::KeepAliveTimeout,
        0x8E => DisconnectReasonCode::SessionTakenOver, 0x8F => DisconnectReasonCode::TopicFilterInvalid,
        0x90 => DisconnectReasonCode::TopicNameInvalid, 0x93 => DisconnectReasonCode::ReceiveMaximumExceeded,
        0x94 => DisconnectReasonCode::TopicAliasInvalid, 0x95 => DisconnectReasonCode::PacketTooLarge,
        0x96 => DisconnectReasonCode::MessageRateTooHigh, 0x97 => DisconnectReasonCode::QuotaExceeded,
        0x98 => DisconnectReasonCode::AdministrativeAction, 0x99 => DisconnectReasonCode::PayloadFormatInvalid,
        0x9A => DisconnectReasonCode::RetainNotSupported, 0x9B => DisconnectReasonCode::QoSNotSupported,
        0x9C => DisconnectReasonCode::UseAnotherServer, 0x9D => DisconnectReasonCode::ServerMoved,
        0x9E => DisconnectReasonCode::SharedSubscriptionNotSupported,
        0x9F => DisconnectReasonCode::ConnectionRateExceeded, 0xA0 => DisconnectReasonCode::MaximumConnectTime,
        0xA1 => DisconnectReasonCode::SubscriptionIdentifiersNotSupported,
        0xA2 => DisconnectReasonCode::WildcardSubscriptionsNotSupported);

    fn suback_to(c: u8) -> Option<SubscribeReasonCode> {
        Some(match c {
            0..=2 => SubscribeReasonCode::Success(qos(c)?),
            0x80 => SubscribeReasonCode::Unspecified,
            0x83 => SubscribeReasonCode::ImplementationSpecific,
            0x87 => SubscribeReasonCode::NotAuthorized,
            0x8F => SubscribeReasonCode::TopicFilterInvalid,
            0x91 => SubscribeReasonCode::PkidInUse,
            0x97 => SubscribeReasonCode::QuotaExceeded,
            0x9E => SubscribeReasonCode::SharedSubscriptionsNotSupported,
            0xA1 => SubscribeReasonCode::SubscriptionIdNotSupported,
            0xA2 => SubscribeReasonCode::WildcardSubscriptionsNotSupported,
            _ => return None,
        })
    }
    fn suback_from(c: SubscribeReasonCode) -> u8 {
        match c {
            SubscribeReasonCode::Success(q) => q as u8,
            // `Failure` is the MQTT 3.1.1 name of 0x80
            SubscribeReasonCode::Failure | SubscribeReasonCode::Unspecified => 0x80,
            SubscribeReasonCode::ImplementationSpecific => 0x83,
            SubscribeReasonCode::NotAuthorized => 0x87,
            SubscribeReasonCode::TopicFilterInvalid => 0x8F,
            SubscribeReasonCode::PkidInUse => 0x91,
            SubscribeReasonCode::QuotaExceeded => 0x97,
            SubscribeReasonCode::SharedSubscriptionsNotSupported => 0x9E,
            SubscribeReasonCode::SubscriptionIdNotSupported => 0xA1,
            SubscribeReasonCode::WildcardSubscriptionsNotSupported => 0xA2,
        }
    }

    fn ack_props(p: &Props) -> (Option<String>, Vec<(String, String)>) {
        (s(&p.reason_string), user_to(p))
    }
    fn ack_props_from(reason: &Option<String>, user: &[(String, String)]) -> Props {
        Props { reason_string: t(reason), user: user_from(user), ..Props::default() }
    }

    pub fn to(m: &M) -> Option<Packet> {
        Some(match m {
            M::Connect(c) => {
                let p = &c.props;
                let props = opt(
                    p,
                    ConnectProperties {
                        session_expiry_interval: p.session_expiry,
                        receive_maximum: p.receive_max,
                        max_packet_size: p.max_packet_size,
                        topic_alias_max: p.topic_alias_max,
                        request_response_info: p.request_response_info,
                        request_problem_info: p.request_problem_info,
                        user_properties: user_to(p),
                        authentication_method: s(&p.auth_method),
                        authentication_data: b(&p.auth_data),
                    },
                );
                let will = match &c.will {
                    Some(w) => {
                        let wp = &w.props;
                        Some(LastWill {
                            topic: Bytes::from(w.topic.get().into_bytes()),
                            message: Bytes::from(w.message.get()),
                            qos: qos(w.qos)?,
                            retain: w.retain,
                            properties: opt(
                                wp,
                                LastWillProperties {
                                    delay_interval: wp.will_delay,
                                    payload_format_indicator: wp.payload_format,
                                    message_expiry_interval: wp.message_expiry,
                                    content_type: s(&wp.content_type),
                                    response_topic: s(&wp.response_topic),
                                    correlation_data: b(&wp.correlation_data),
                                    user_properties: user_to(wp),
                                },
                            ),
                        })
                    }
                    None => None,
                };
                let login = c.login.as_ref().map(|l| Login { username: l.username.get(), password: l.password.get() });
                Packet::Connect(
                    Connect { keep_alive: c.keep_alive, client_id: c.client_id.get(), clean_start: c.clean, properties: props },
                    will,
                    login,
                )
            }
            M::ConnAck(c) => {
                let p = &c.props;
                Packet::ConnAck(ConnAck {
                    session_present: c.session_present,
                    code: connack_to(c.code)?,
                    properties: opt(
                        p,
                        ConnAckProperties {
                            session_expiry_interval: p.session_expiry,
                            receive_max: p.receive_max,
                            max_qos: p.max_qos,
                            retain_available: p.retain_available,
                            max_packet_size: p.max_packet_size,
                            assigned_client_identifier: s(&p.assigned_client_id),
                            topic_alias_max: p.topic_alias_max,
                            reason_string: s(&p.reason_string),
                            user_properties: user_to(p),
                            wildcard_subscription_available: p.wildcard_sub_available,
                            subscription_identifiers_available: p.sub_ids_available,
                            shared_subscription_available: p.shared_sub_available,
                            server_keep_alive: p.server_keep_alive,
                            response_information: s(&p.response_info),
                            server_reference: s(&p.server_reference),
                            authentication_method: s(&p.auth_method),
                            authentication_data: b(&p.auth_data),
                        },
                    ),
                })
            }
            M::Publish(pb) => {
                let p = &pb.props;
                Packet::Publish(Publish {
                    dup: pb.dup,
                    qos: qos(pb.qos)?,
                    retain: pb.retain,
                    topic: Bytes::from(pb.topic.get().into_bytes()),
                    pkid: pb.pkid,
                    payload: Bytes::from(pb.payload.get()),
                    properties: opt(
                        p,
                        PublishProperties {
                            payload_format_indicator: p.payload_format,
                            message_expiry_interval: p.message_expiry,
                            topic_alias: p.topic_alias,
                            response_topic: s(&p.response_topic),
                            correlation_data: b(&p.correlation_data),
                            user_properties: user_to(p),
                            subscription_identifiers: ids_to(p),
                            content_type: s(&p.content_type),
                        },
                    ),
                })
            }
            M::PubAck(a) => {
                let (reason_string, user_properties) = ack_props(&a.props);
                Packet::PubAck(PubAck {
                    pkid: a.pkid,
                    reason: puback_to(a.reason)?,
                    properties: opt(&a.props, PubAckProperties { reason_string, user_properties }),
                })
            }
            M::PubRec(a) => {
                let (reason_string, user_properties) = ack_props(&a.props);
                Packet::PubRec(PubRec {
                    pkid: a.pkid,
                    reason: pubrec_to(a.reason)?,
                    properties: opt(&a.props, PubRecProperties { reason_string, user_properties }),
                })
            }
            M::PubRel(a) => {
                let (reason_string, user_properties) = ack_props(&a.props);
                Packet::PubRel(PubRel {
                    pkid: a.pkid,
                    reason: pubrel_to(a.reason)?,
                    properties: opt(&a.props, PubRelProperties { reason_string, user_properties }),
                })
            }
            M::PubComp(a) => {
                let (reason_string, user_properties) = ack_props(&a.props);
                Packet::PubComp(PubComp {
                    pkid: a.pkid,
                    reason: pubcomp_to(a.reason)?,
                    properties: opt(&a.props, PubCompProperties { reason_string, user_properties }),
                })
            }
            M::Subscribe(sub) => {
                let mut filters = Vec::new();
                for f in &sub.filters {
                    filters.push(Filter {
                        path: f.path.get(),
                        qos: qos(f.qos)?,
                        nolocal: f.nolocal,
                        preserve_retain: f.preserve_retain,
                        retain_forward_rule: match f.retain_rule {
                            0 => RetainForwardRule::OnEverySubscribe,
                            1 => RetainForwardRule::OnNewSubscribe,
                            2 => RetainForwardRule::Never,
                            _ => return None,
                        },
                    });
                }
                let p = &sub.props;
                Packet::Subscribe(Subscribe {
                    pkid: sub.pkid,
                    filters,
                    properties: opt(
                        p,
                        SubscribeProperties {
                            id: p.subscription_ids.first().map(|i| *i as usize),
                            user_properties: user_to(p),
                        },
                    ),
                })
            }
            M::SubAck(sa) => {
                let mut return_codes = Vec::new();
                for c in &sa.codes {
                    return_codes.push(suback_to(*c)?);
                }
                let (reason_string, user_properties) = ack_props(&sa.props);
                Packet::SubAck(SubAck {
                    pkid: sa.pkid,
                    return_codes,
                    properties: opt(&sa.props, SubAckProperties { reason_string, user_properties }),
                })
            }
            M::Unsubscribe(u) => Packet::Unsubscribe(Unsubscribe {
                pkid: u.pkid,
                filters: u.filters.iter().map(|f| f.get()).collect(),
                properties: opt(&u.props, UnsubscribeProperties { user_properties: user_to(&u.props) }),
            }),
            M::UnsubAck(u) => {
                let mut reasons = Vec::new();
                for c in &u.reasons {
                    reasons.push(unsuback_to(*c)?);
                }
                let (reason_string, user_properties) = ack_props(&u.props);
                Packet::UnsubAck(UnsubAck {
                    pkid: u.pkid,
                    reasons,
                    properties: opt(&u.props, UnsubAckProperties { reason_string, user_properties }),
                })
            }
            M::PingReq => Packet::PingReq(PingReq),
            M::PingResp => Packet::PingResp(PingResp),
            M::Disconnect(d) => {
                let p = &d.props;
                Packet::Disconnect(Disconnect {
                    reason_code: disc_to(d.reason)?,
                    properties: opt(
                        p,
                        DisconnectProperties {
                            session_expiry_interval: p.session_expiry,
                            reason_string: s(&p.reason_string),
                            user_properties: user_to(p),
                            server_reference: s(&p.server_reference),
                        },
                    ),
                })
            }
        })
    }

    pub fn from(p: &Packet) -> Option<M> {
        Some(match p {
            Packet::Auth(_) => return None,
            Packet::Connect(c, will, login) => M::Connect(md::Connect {
                keep_alive: c.keep_alive,
                client_id: Txt::lit(&c.client_id),
                clean: c.clean_start,
                will: match will {
                    Some(w) => Some(Will {
                        topic: txt_of_bytes(&w.topic)?,
                        message: Bin::Lit(w.message.to_vec()),
                        qos: w.qos as u8,
                        retain: w.retain,
                        props: match &w.properties {
                            Some(wp) => Props {
                                will_delay: wp.delay_interval,
                                payload_format: wp.payload_format_indicator,
                                message_expiry: wp.message_expiry_interval,
                                content_type: t(&wp.content_type),
                                response_topic: t(&wp.response_topic),
                                correlation_data: bl(&wp.correlation_data),
                                user: user_from(&wp.user_properties),
                                ..Props::default()
                            },
                            None => Props::default(),
                        },
                    }),
                    None => None,
                },
                login: login
                    .as_ref()
                    .map(|l| md::Login { username: Txt::lit(&l.username), password: Txt::lit(&l.password) }),
                props: match &c.properties {
                    Some(p) => Props {
                        session_expiry: p.session_expiry_interval,
                        receive_max: p.receive_maximum,
                        max_packet_size: p.max_packet_size,
                        topic_alias_max: p.topic_alias_max,
                        request_response_info: p.request_response_info,
                        request_problem_info: p.request_problem_info,
                        user: user_from(&p.user_properties),
                        auth_method: t(&p.authentication_method),
                        auth_data: bl(&p.authentication_data),
                        ..Props::default()
                    },
                    None => Props::default(),
                },
            }),
            Packet::ConnAck(c) => M::ConnAck(md::ConnAck {
                session_present: c.session_present,
                code: connack_from(c.code)?,
                props: match &c.properties {
                    Some(p) => Props {
                        session_expiry: p.session_expiry_interval,
                        receive_max: p.receive_max,
                        max_qos: p.max_qos,
                        retain_available: p.retain_available,
                        max_packet_size: p.max_packet_size,
                        assigned_client_id: t(&p.assigned_client_identifier),
                        topic_alias_max: p.topic_alias_max,
                        reason_string: t(&p.reason_string),
                        user: user_from(&p.user_properties),
                        wildcard_sub_available: p.wildcard_subscription_available,
                        sub_ids_available: p.subscription_identifiers_available,
                        shared_sub_available: p.shared_subscription_available,
                        server_keep_alive: p.server_keep_alive,
                        response_info: t(&p.response_information),
                        server_reference: t(&p.server_reference),
                        auth_method: t(&p.authentication_method),
                        auth_data: bl(&p.authentication_data),
                        ..Props::default()
                    },
                    None => Props::default(),
                },
            }),
            Packet::Publish(pb) => M::Publish(md::Publish {
                dup: pb.dup,
                qos: pb.qos as u8,
                retain: pb.retain,
                topic: txt_of_bytes(&pb.topic)?,
                pkid: pb.pkid,
                payload: Bin::Lit(pb.payload.to_vec()),
                props: match &pb.properties {
                    Some(p) => Props {
                        payload_format: p.payload_format_indicator,
                        message_expiry: p.message_expiry_interval,
                        topic_alias: p.topic_alias,
                        response_topic: t(&p.response_topic),
                        correlation_data: bl(&p.correlation_data),
                        user: user_from(&p.user_properties),
                        subscription_ids: ids_from(&p.subscription_identifiers),
                        content_type: t(&p.content_type),
                        ..Props::default()
                    },
                    None => Props::default(),
                },
            }),
            Packet::PubAck(a) => M::PubAck(Ack {
                pkid: a.pkid,
                reason: puback_from(a.reason)?,
                props: a.properties.as_ref().map(|p| ack_props_from(&p.reason_string, &p.user_properties)).unwrap_or_default(),
            }),
            Packet::PubRec(a) => M::PubRec(Ack {
                pkid: a.pkid,
                reason: pubrec_from(a.reason)?,
                props: a.properties.as_ref().map(|p| ack_props_from(&p.reason_string, &p.user_properties)).unwrap_or_default(),
            }),
            Packet::PubRel(a) => M::PubRel(Ack {
                pkid: a.pkid,
                reason: pubrel_from(a.reason)?,
                props: a.properties.as_ref().map(|p| ack_props_from(&p.reason_string, &p.user_properties)).unwrap_or_default(),
            }),
            Packet::PubComp(a) => M::PubComp(Ack {
                pkid: a.pkid,
                reason: pubcomp_from(a.reason)?,
                props: a.properties.as_ref().map(|p| ack_props_from(&p.reason_string, &p.user_properties)).unwrap_or_default(),
            }),
            Packet::Subscribe(sub) => M::Subscribe(md::Subscribe {
                pkid: sub.pkid,
                filters: sub
                    .filters
                    .iter()
                    .map(|f| md::Filter {
                        path: Txt::lit(&f.path),
                        qos: f.qos as u8,
                        nolocal: f.nolocal,
                        preserve_retain: f.preserve_retain,
                        retain_rule: match f.retain_forward_rule {
                            RetainForwardRule::OnEverySubscribe => 0,
                            RetainForwardRule::OnNewSubscribe => 1,
                            RetainForwardRule::Never => 2,
                        },
                    })
                    .collect(),
                props: match &sub.properties {
                    Some(p) => Props {
                        subscription_ids: p.id.iter().map(|i| *i as u32).collect(),
                        user: user_from(&p.user_properties),
                        ..Props::default()
                    },
                    None => Props::default(),
                },
            }),
            Packet::SubAck(sa) => M::SubAck(md::SubAck {
                pkid: sa.pkid,
                codes: sa.return_codes.iter().map(|c| suback_from(*c)).collect(),
                props: sa.properties.as_ref().map(|p| ack_props_from(&p.reason_string, &p.user_properties)).unwrap_or_default(),
            }),
            Packet::Unsubscribe(u) => M::Unsubscribe(md::Unsubscribe {
                pkid: u.pkid,
                filters: u.filters.iter().map(|f| Txt::lit(f)).collect(),
                props: match &u.properties {
                    Some(p) => Props { user: user_from(&p.user_properties), ..Props::default() },
                    None => Props::default(),
                },
            }),
            Packet::UnsubAck(u) => {
                let mut reasons = Vec::new();
                for r in &u.reasons {
                    reasons.push(unsuback_from(*r)?);
                }
                M::UnsubAck(md::UnsubAck {
                    pkid: u.pkid,
                    reasons,
                    props: u.properties.as_ref().map(|p| ack_props_from(&p.reason_string, &p.user_properties)).unwrap_or_default(),
                })
            }
            Packet::PingReq(_) => M::PingReq,
            Packet::PingResp(_) => M::PingResp,
            Packet::Disconnect(d) => M::Disconnect(md::Disconnect {
                reason: disc_from(d.reason_code)?,
                props: match &d.properties {
                    Some(p) => Props {
                        session_expiry: p.session_expiry_interval,
                        reason_string: t(&p.reason_string),
                        user: user_from(&p.user_properties),
                        server_reference: t(&p.server_reference),
                        ..Props::default()
                    },
                    None => Props::default(),
                },
            }),
        })
    }
}

// =======================================================================================
/// rumqttd's neutral packet type (used by both V4 and V5)
pub mod d {
    use super::*;
    use rumqttd::protocol::*;

    fn qos_of(q: u8) -> Option<QoS> {
        qos(q)
    }

    macro_rules! table {
        ($to:ident, $from:ident, $ty:ty, $( $code:expr => $variant:path ),* $(,)?) => {
            fn $to(c: u8) -> Option<$ty> { match c { $( $code => Some($variant), )* _ => None } }
            #[allow(unreachable_patterns)]
            fn $from(c: $ty) -> Option<u8> { match c { $( $variant => Some($code), )* _ => None } }
        };
    }
    table!(connack5_to, connack5_from, ConnectReturnCode,
        0x00 => ConnectReturnCode::Success, 0x80 => ConnectReturnCode::UnspecifiedError,
        0x81 => ConnectReturnCode::MalformedPacket, 0x82 => ConnectReturnCode::ProtocolError,
        0x83 => ConnectReturnCode::ImplementationSpecificError, 0x84 => ConnectReturnCode::UnsupportedProtocolVersion,
        0x85 => ConnectReturnCode::ClientIdentifierNotValid, 0x86 => ConnectReturnCode::BadUserNamePassword,
        0x87 => ConnectReturnCode::NotAuthorized, 0x88 => ConnectReturnCode::ServerUnavailable,
        0x89 => ConnectReturnCode::ServerBusy, 0x8A => ConnectReturnCode::Banned,
        0x8C => ConnectReturnCode::BadAuthenticationMethod, 0x90 => ConnectReturnCode::TopicNameInvalid,
        0x95 => ConnectReturnCode::PacketTooLarge, 0x97 => ConnectReturnCode::QuotaExceeded,
        0x99 => ConnectReturnCode::PayloadFormatInvalid, 0x9A => ConnectReturnCode::RetainNotSupported,
        0x9B => ConnectReturnCode::QoSNotSupported, 0x9C => ConnectReturnCode::UseAnotherServer,
        0x9D => ConnectReturnCode::ServerMoved, 0x9F => ConnectReturnCode::ConnectionRateExceeded);
    // MQTT 3.1.1 return codes as the broker names them
    table!(connack4_to, connack4_from, ConnectReturnCode,
        0 => ConnectReturnCode::Success, 1 => ConnectReturnCode::RefusedProtocolVersion,
        2 => ConnectReturnCode::ClientIdentifierNotValid, 3 => ConnectReturnCode::ServiceUnavailable,
        4 => ConnectReturnCode::BadUserNamePassword, 5 => ConnectReturnCode::NotAuthorized);
    table!(puback_to, puback_from, PubAckReason,
        0x00 => PubAckReason::Success, 0x10 => PubAckReason::NoMatchingSubscribers,
        0x80 => PubAckReason::UnspecifiedError, 0x83 => PubAckReason::ImplementationSpecificError,
        0x87 => PubAckReason::NotAuthorized, 0x90 => PubAckReason::TopicNameInvalid,
        0x91 => PubAckReason::PacketIdentifierInUse, 0x97 => PubAckReason::QuotaExceeded,
        0x99 => PubAckReason::PayloadFormatInvalid);
    table!(pubrec_to, pubrec_from, PubRecReason,
        0x00 => PubRecReason::Success, 0x10 => PubRecReason::NoMatchingSubscribers,
        0x80 => PubRecReason::UnspecifiedError, 0x83 => PubRecReason::ImplementationSpecificError,
        0x87 => PubRecReason::NotAuthorized, 0x90 => PubRecReason::TopicNameInvalid,
        0x91 => PubRecReason::PacketIdentifierInUse, 0x97 => PubRecReason::QuotaExceeded,
        0x99 => PubRecReason::PayloadFormatInvalid);
    table!(pubrel_to, pubrel_from, PubRelReason,
        0x00 => PubRelReason::Success, 0x92 => PubRelReason::PacketIdentifierNotFound);
    table!(pubcomp_to, pubcomp_from, PubCompReason,
        0x00 => PubCompReason::Success, 0x92 => PubCompReason::PacketIdentifierNotFound);
    table!(unsuback_to, unsuback_from, UnsubAckReason,
        0x00 => UnsubAckReason::Success, 0x11 => UnsubAckReason::NoSubscriptionExisted,
        0x80 => UnsubAckReason::UnspecifiedError, 0x83 => UnsubAckReason::ImplementationSpecificError,
        0x87 => UnsubAckReason::NotAuthorized, 0x8F => UnsubAckReason::TopicFilterInvalid,
        0x91 => UnsubAckReason::PacketIdentifierInUse);
    table!(disc_to, disc_from, DisconnectReasonCode,
        0x00 => DisconnectReasonCode::NormalDisconnection, 0x04 => DisconnectReasonCode::DisconnectWithWillMessage,
        0x80 => DisconnectReasonCode::UnspecifiedError, 0x81 => DisconnectReasonCode::MalformedPacket,
        0x82 => DisconnectReasonCode::ProtocolError, 0x83 => DisconnectReasonCode::ImplementationSpecificError,
        0x87 => DisconnectReasonCode::NotAuthorized, 0x89 => DisconnectReasonCode::ServerBusy,
        0x8B => DisconnectReasonCode::ServerShuttingDown, 0x8D => DisconnectReasonCode::KeepAliveTimeout,
        0x8E => DisconnectReasonCode::SessionTakenOver, 0x8F => DisconnectReasonCode::TopicFilterInvalid,
        0x90 => DisconnectReasonCode::TopicNameInvalid, 0x93 => DisconnectReasonCode::ReceiveMaximumExceeded,
        0x94 => DisconnectReasonCode::TopicAliasInvalid, 0x95 => DisconnectReasonCode::PacketTooLarge,
        0x96 => DisconnectReasonCode::MessageRateTooHigh, 0x97 => DisconnectReasonCode::QuotaExceeded,
        0x98 => DisconnectReasonCode::AdministrativeAction, 0x99 => DisconnectReasonCode::PayloadFormatInvalid,
        0x9A => DisconnectReasonCode::RetainNotSupported, 0x9B => DisconnectReasonCode::QoSNotSupported,
        0x9C => DisconnectReasonCode::UseAnotherServer, 0x9D => DisconnectReasonCode::ServerMoved,
        0x9E => DisconnectReasonCode::SharedSubscriptionNotSupported,
        0x9F => DisconnectReasonCode::ConnectionRateExceeded, 0xA0 => DisconnectReasonCode::MaximumConnectTime,
        0xA1 => DisconnectReasonCode::SubscriptionIdentifiersNotSupported,
        0xA2 => DisconnectReasonCode::WildcardSubscriptionsNotSupported);

    /// `alt` selects the alternative spelling the broker also accepts on encode
    /// (`QoS0/1/2` instead of `Success(q)`), a representational freedom of its enum
    fn suback_to(ver: Ver, c: u8, alt: bool) -> Option<SubscribeReasonCode> {
        Some(match (ver, c) {
            (_, 0..=2) if alt => [SubscribeReasonCode::QoS0, SubscribeReasonCode::QoS1, SubscribeReasonCode::QoS2][c as usize],
            (_, 0..=2) => SubscribeReasonCode::Success(qos_of(c)?),
            (Ver::V4, 0x80) => SubscribeReasonCode::Failure,
            (Ver::V4, _) => return None,
            (_, 0x80) => SubscribeReasonCode::Unspecified,
            (_, 0x83) => SubscribeReasonCode::ImplementationSpecific,
            (_, 0x87) => SubscribeReasonCode::NotAuthorized,
            (_, 0x8F) => SubscribeReasonCode::TopicFilterInvalid,
            (_, 0x91) => SubscribeReasonCode::PkidInUse,
            (_, 0x97) => SubscribeReasonCode::QuotaExceeded,
            (_, 0x9E) => SubscribeReasonCode::SharedSubscriptionsNotSupported,
            (_, 0xA1) => SubscribeReasonCode::SubscriptionIdNotSupported,
            (_, 0xA2) => SubscribeReasonCode::WildcardSubscriptionsNotSupported,
            _ => return None,
        })
    }
    fn suback_from(c: SubscribeReasonCode) -> u8 {
        match c {
            SubscribeReasonCode::QoS0 => 0,
            SubscribeReasonCode::QoS1 => 1,
            SubscribeReasonCode::QoS2 => 2,
            SubscribeReasonCode::Success(q) => q as u8,
            SubscribeReasonCode::Failure | SubscribeReasonCode::Unspecified => 0x80,
            SubscribeReasonCode::ImplementationSpecific => 0x83,
            SubscribeReasonCode::NotAuthorized => 0x87,
            SubscribeReasonCode::TopicFilterInvalid => 0x8F,
            SubscribeReasonCode::PkidInUse => 0x91,
            SubscribeReasonCode::QuotaExceeded => 0x97,
            SubscribeReasonCode::SharedSubscriptionsNotSupported => 0x9E,
            SubscribeReasonCode::SubscriptionIdNotSupported => 0xA1,
            SubscribeReasonCode::WildcardSubscriptionsNotSupported => 0xA2,
        }
    }

    /// The broker's `Publish` has crate-private fields; its public, lossless
    /// `deserialize`/`serialize` pair is the documented way to build and inspect one.
    pub fn make_publish(dup: bool, qos: u8, retain: bool, pkid: u16, topic: &[u8], payload: &[u8]) -> Publish {
        let mut o = Vec::with_capacity(5 + topic.len() + payload.len());
        o.push(0x30 | retain as u8 | (qos << 1) | ((dup as u8) << 3));
        o.extend_from_slice(&pkid.to_be_bytes());
        o.extend_from_slice(&(topic.len() as u16).to_be_bytes());
        o.extend_from_slice(topic);
        o.extend_from_slice(payload);
        Publish::deserialize(Bytes::from(o))
    }
    /// (dup, qos, retain, pkid, topic, payload)
    pub fn split_publish(p: &Publish) -> (bool, u8, bool, u16, Vec<u8>, Vec<u8>) {
        let sv = p.serialize();
        let h = sv[0];
        let pkid = u16::from_be_bytes([sv[1], sv[2]]);
        let tl = u16::from_be_bytes([sv[3], sv[4]]) as usize;
        (h & 8 != 0, (h >> 1) & 3, h & 1 != 0, pkid, sv[5..5 + tl].to_vec(), sv[5 + tl..].to_vec())
    }

    fn ackp(p: &Props) -> (Option<String>, Vec<(String, String)>) {
        (s(&p.reason_string), user_to(p))
    }
    fn ackp_from(reason: &Option<String>, user: &[(String, String)]) -> Props {
        Props { reason_string: t(reason), user: user_from(user), ..Props::default() }
    }

    pub fn to(ver: Ver, m: &M) -> Option<Packet> {
        if ver == Ver::V4 && m.prop_popcount() != 0 {
            return None;
        }
        let v4 = ver == Ver::V4;
        // in a v4 packet the broker's V4 encoder requires `None` properties
        macro_rules! o {
            ($p:expr, $x:expr) => {
                if v4 {
                    None
                } else {
                    super::opt($p, $x)
                }
            };
        }
        Some(match m {
            M::Connect(c) => {
                let p = &c.props;
                let props = o!(
                    p,
                    ConnectProperties {
                        session_expiry_interval: p.session_expiry,
                        receive_maximum: p.receive_max,
                        max_packet_size: p.max_packet_size,
                        topic_alias_max: p.topic_alias_max,
                        request_response_info: p.request_response_info,
                        request_problem_info: p.request_problem_info,
                        user_properties: user_to(p),
                        authentication_method: s(&p.auth_method),
                        authentication_data: b(&p.auth_data),
                    }
                );
                let (will, wprops) = match &c.will {
                    Some(w) => {
                        let wp = &w.props;
                        (
                            Some(LastWill {
                                topic: Bytes::from(w.topic.get().into_bytes()),
                                message: Bytes::from(w.message.get()),
                                qos: qos_of(w.qos)?,
                                retain: w.retain,
                            }),
                            o!(
                                wp,
                                LastWillProperties {
                                    delay_interval: wp.will_delay,
                                    payload_format_indicator: wp.payload_format,
                                    message_expiry_interval: wp.message_expiry,
                                    content_type: s(&wp.content_type),
                                    response_topic: s(&wp.response_topic),
                                    correlation_data: b(&wp.correlation_data),
                                    user_properties: user_to(wp),
                                }
                            ),
                        )
                    }
                    None => (None, None),
                };
                let login = c.login.as_ref().map(|l| Login { username: l.username.get(), password: l.password.get() });
                Packet::Connect(
                    Connect { keep_alive: c.keep_alive, client_id: c.client_id.get(), clean_session: c.clean },
                    props,
                    will,
                    wprops,
                    login,
                )
            }
            M::ConnAck(c) => {
                let p = &c.props;
                Packet::ConnAck(
                    ConnAck {
                        session_present: c.session_present,
                        code: if v4 { connack4_to(c.code)? } else { connack5_to(c.code)? },
                    },
                    o!(
                        p,
                        ConnAckProperties {
                            session_expiry_interval: p.session_expiry,
                            receive_max: p.receive_max,
                            max_qos: p.max_qos,
                            retain_available: p.retain_available,
                            max_packet_size: p.max_packet_size,
                            assigned_client_identifier: s(&p.assigned_client_id),
                            topic_alias_max: p.topic_alias_max,
                            reason_string: s(&p.reason_string),
                            user_properties: user_to(p),
                            wildcard_subscription_available: p.wildcard_sub_available,
                            subscription_identifiers_available: p.sub_ids_available,
                            shared_subscription_available: p.shared_sub_available,
                            server_keep_alive: p.server_keep_alive,
                            response_information: s(&p.response_info),
                            server_reference: s(&p.server_reference),
                            authentication_method: s(&p.auth_method),
                            authentication_data: b(&p.auth_data),
                        }
                    ),
                )
            }
            M::Publish(pb) => {
                let p = &pb.props;
                if pb.qos > 2 {
                    return None;
                }
                Packet::Publish(
                    make_publish(pb.dup, pb.qos, pb.retain, pb.pkid, pb.topic.get().as_bytes(), &pb.payload.get()),
                    o!(
                        p,
                        PublishProperties {
                            payload_format_indicator: p.payload_format,
                            message_expiry_interval: p.message_expiry,
                            topic_alias: p.topic_alias,
                            response_topic: s(&p.response_topic),
                            correlation_data: b(&p.correlation_data),
                            user_properties: user_to(p),
                            subscription_identifiers: ids_to(p),
                            content_type: s(&p.content_type),
                        }
                    ),
                )
            }
            M::PubAck(a) => {
                if v4 && a.reason != 0 {
                    return None;
                }
                let (reason_string, user_properties) = ackp(&a.props);
                Packet::PubAck(
                    PubAck { pkid: a.pkid, reason: puback_to(a.reason)? },
                    o!(&a.props, PubAckProperties { reason_string, user_properties }),
                )
            }
            M::PubRec(a) => {
                if v4 && a.reason != 0 {
                    return None;
                }
                let (reason_string, user_properties) = ackp(&a.props);
                Packet::PubRec(
                    PubRec { pkid: a.pkid, reason: pubrec_to(a.reason)? },
                    o!(&a.props, PubRecProperties { reason_string, user_properties }),
                )
            }
            M::PubRel(a) => {
                if v4 && a.reason != 0 {
                    return None;
                }
                let (reason_string, user_properties) = ackp(&a.props);
                Packet::PubRel(
                    PubRel { pkid: a.pkid, reason: pubrel_to(a.reason)? },
                    o!(&a.props, PubRelProperties { reason_string, user_properties }),
                )
            }
            M::PubComp(a) => {
                if v4 && a.reason != 0 {
                    return None;
                }
                let (reason_string, user_properties) = ackp(&a.props);
                Packet::PubComp(
                    PubComp { pkid: a.pkid, reason: pubcomp_to(a.reason)? },
                    o!(&a.props, PubCompProperties { reason_string, user_properties }),
                )
            }
            M::Subscribe(sub) => {
                let mut filters = Vec::new();
                for f in &sub.filters {
                    if v4 && (f.nolocal || f.preserve_retain || f.retain_rule != 0) {
                        return None;
                    }
                    filters.push(Filter {
                        path: f.path.get(),
                        qos: qos_of(f.qos)?,
                        nolocal: f.nolocal,
                        preserve_retain: f.preserve_retain,
                        retain_forward_rule: match f.retain_rule {
                            0 => RetainForwardRule::OnEverySubscribe,
                            1 => RetainForwardRule::OnNewSubscribe,
                            2 => RetainForwardRule::Never,
                            _ => return None,
                        },
                    });
                }
                let p = &sub.props;
                Packet::Subscribe(
                    Subscribe { pkid: sub.pkid, filters },
                    o!(
                        p,
                        SubscribeProperties {
                            id: p.subscription_ids.first().map(|i| *i as usize),
                            user_properties: user_to(p),
                        }
                    ),
                )
            }
            M::SubAck(sa) => {
                let mut return_codes = Vec::new();
                for (i, c) in sa.codes.iter().enumerate() {
                    // alternate between the two spellings of a granted QoS (pkid parity keeps it
                    // a pure function of the case)
                    return_codes.push(suback_to(ver, *c, (i + sa.pkid as usize) % 2 == 1)?);
                }
                let (reason_string, user_properties) = ackp(&sa.props);
                Packet::SubAck(
                    SubAck { pkid: sa.pkid, return_codes },
                    o!(&sa.props, SubAckProperties { reason_string, user_properties }),
                )
            }
            M::Unsubscribe(u) => Packet::Unsubscribe(
                Unsubscribe { pkid: u.pkid, filters: u.filters.iter().map(|f| f.get()).collect() },
                o!(&u.props, UnsubscribeProperties { user_properties: user_to(&u.props) }),
            ),
            M::UnsubAck(u) => {
                if v4 && !u.reasons.is_empty() {
                    return None;
                }
                let mut reasons = Vec::new();
                for c in &u.reasons {
                    reasons.push(unsuback_to(*c)?);
                }
                let (reason_string, user_properties) = ackp(&u.props);
                Packet::UnsubAck(
                    UnsubAck { pkid: u.pkid, reasons },
                    o!(&u.props, UnsubAckProperties { reason_string, user_properties }),
                )
            }
            M::PingReq => Packet::PingReq(PingReq),
            M::PingResp => Packet::PingResp(PingResp),
            M::Disconnect(dc) => {
                if v4 && dc.reason != 0 {
                    return None;
                }
                let p = &dc.props;
                Packet::Disconnect(
                    Disconnect { reason_code: disc_to(dc.reason)? },
                    o!(
                        p,
                        DisconnectProperties {
                            session_expiry_interval: p.session_expiry,
                            reason_string: s(&p.reason_string),
                            user_properties: user_to(p),
                            server_reference: s(&p.server_reference),
                        }
                    ),
                )
            }
        })
    }

    pub fn from(ver: Ver, p: &Packet) -> Option<M> {
        let v4 = ver == Ver::V4;
        Some(match p {
            Packet::Connect(c, props, will, wprops, login) => M::Connect(md::Connect {
                keep_alive: c.keep_alive,
                client_id: Txt::lit(&c.client_id),
                clean: c.clean_session,
                will: match will {
                    Some(w) => Some(Will {
                        topic: txt_of_bytes(&w.topic)?,
                        message: Bin::Lit(w.message.to_vec()),
                        qos: w.qos as u8,
                        retain: w.retain,
                        props: match wprops {
                            Some(wp) => Props {
                                will_delay: wp.delay_interval,
                                payload_format: wp.payload_format_indicator,
                                message_expiry: wp.message_expiry_interval,
                                content_type: t(&wp.content_type),
                                response_topic: t(&wp.response_topic),
                                correlation_data: bl(&wp.correlation_data),
                                user: user_from(&wp.user_properties),
                                ..Props::default()
                            },
                            None => Props::default(),
                        },
                    }),
                    None => {
                        if wprops.is_some() {
                            return None;
                        }
                        None
                    }
                },
                login: login
                    .as_ref()
                    .map(|l| md::Login { username: Txt::lit(&l.username), password: Txt::lit(&l.password) }),
                props: match props {
                    Some(p) => Props {
                        session_expiry: p.session_expiry_interval,
                        receive_max: p.receive_maximum,
                        max_packet_size: p.max_packet_size,
                        topic_alias_max: p.topic_alias_max,
                        request_response_info: p.request_response_info,
                        request_problem_info: p.request_problem_info,
                        user: user_from(&p.user_properties),
                        auth_method: t(&p.authentication_method),
                        auth_data: bl(&p.authentication_data),
                        ..Props::default()
                    },
                    None => Props::default(),
                },
            }),
            Packet::ConnAck(c, props) => M::ConnAck(md::ConnAck {
                session_present: c.session_present,
                code: if v4 { connack4_from(c.code)? } else { connack5_from(c.code)? },
                props: match props {
                    Some(p) => Props {
                        session_expiry: p.session_expiry_interval,
                        receive_max: p.receive_max,
                        max_qos: p.max_qos,
                        retain_available: p.retain_available,
                        max_packet_size: p.max_packet_size,
                        assigned_client_id: t(&p.assigned_client_identifier),
                        topic_alias_max: p.topic_alias_max,
                        reason_string: t(&p.reason_string),
                        user: user_from(&p.user_properties),
                        wildcard_sub_available: p.wildcard_subscription_available,
                        sub_ids_available: p.subscription_identifiers_available,
                        shared_sub_available: p.shared_subscription_available,
                        server_keep_alive: p.server_keep_alive,
                        response_info: t(&p.response_information),
                        server_reference: t(&p.server_reference),
                        auth_method: t(&p.authentication_method),
                        auth_data: bl(&p.authentication_data),
                        ..Props::default()
                    },
                    None => Props::default(),
                },
            }),
            Packet::Publish(pb, props) => {
                let (dup, qos, retain, pkid, topic, payload) = split_publish(pb);
                M::Publish(md::Publish {
                    dup,
                    qos,
                    retain,
                    topic: txt_of_bytes(&topic)?,
                    pkid,
                    payload: Bin::Lit(payload),
                    props: match props {
                        Some(p) => Props {
                            payload_format: p.payload_format_indicator,
                            message_expiry: p.message_expiry_interval,
                            topic_alias: p.topic_alias,
                            response_topic: t(&p.response_topic),
                            correlation_data: bl(&p.correlation_data),
                            user: user_from(&p.user_properties),
                            subscription_ids: ids_from(&p.subscription_identifiers),
                            content_type: t(&p.content_type),
                            ..Props::default()
                        },
                        None => Props::default(),
                    },
                })
            }
            Packet::PubAck(a, pr) => M::PubAck(Ack {
                pkid: a.pkid,
                reason: puback_from(a.reason)?,
                props: pr.as_ref().map(|p| ackp_from(&p.reason_string, &p.user_properties)).unwrap_or_default(),
            }),
            Packet::PubRec(a, pr) => M::PubRec(Ack {
                pkid: a.pkid,
                reason: pubrec_from(a.reason)?,
                props: pr.as_ref().map(|p| ackp_from(&p.reason_string, &p.user_properties)).unwrap_or_default(),
            }),
            Packet::PubRel(a, pr) => M::PubRel(Ack {
                pkid: a.pkid,
                reason: pubrel_from(a.reason)?,
                props: pr.as_ref().map(|p| ackp_from(&p.reason_string, &p.user_properties)).unwrap_or_default(),
            }),
            Packet::PubComp(a, pr) => M::PubComp(Ack {
                pkid: a.pkid,
                reason: pubcomp_from(a.reason)?,
                props: pr.as_ref().map(|p| ackp_from(&p.reason_string, &p.user_properties)).unwrap_or_default(),
            }),
            Packet::Subscribe(sub, props) => M::Subscribe(md::Subscribe {
                pkid: sub.pkid,
                filters: sub
                    .filters
                    .iter()
                    .map(|f| md::Filter {
                        path: Txt::lit(&f.path),
                        qos: f.qos as u8,
                        nolocal: f.nolocal,
                        preserve_retain: f.preserve_retain,
                        retain_rule: match f.retain_forward_rule {
                            RetainForwardRule::OnEverySubscribe => 0,
                            RetainForwardRule::OnNewSubscribe => 1,
                            RetainForwardRule::Never => 2,
                        },
                    })
                    .collect(),
                props: match props {
                    Some(p) => Props {
                        subscription_ids: p.id.iter().map(|i| *i as u32).collect(),
                        user: user_from(&p.user_properties),
                        ..Props::default()
                    },
                    None => Props::default(),
                },
            }),
            Packet::SubAck(sa, pr) => M::SubAck(md::SubAck {
                pkid: sa.pkid,
                codes: sa.return_codes.iter().map(|c| suback_from(*c)).collect(),
                props: pr.as_ref().map(|p| ackp_from(&p.reason_string, &p.user_properties)).unwrap_or_default(),
            }),
            Packet::Unsubscribe(u, pr) => M::Unsubscribe(md::Unsubscribe {
                pkid: u.pkid,
                filters: u.filters.iter().map(|f| Txt::lit(f)).collect(),
                props: match pr {
                    Some(p) => Props { user: user_from(&p.user_properties), ..Props::default() },
                    None => Props::default(),
                },
            }),
            Packet::UnsubAck(u, pr) => {
                let mut reasons = Vec::new();
                for r in &u.reasons {
                    reasons.push(unsuback_from(*r)?);
                }
                M::UnsubAck(md::UnsubAck {
                    pkid: u.pkid,
                    reasons,
                    props: pr.as_ref().map(|p| ackp_from(&p.reason_string, &p.user_properties)).unwrap_or_default(),
                })
            }
            Packet::PingReq(_) => M::PingReq,
            Packet::PingResp(_) => M::PingResp,
            Packet::Disconnect(dc, pr) => M::Disconnect(md::Disconnect {
                reason: disc_from(dc.reason_code)?,
                props: match pr {
                    Some(p) => Props {
                        session_expiry: p.session_expiry_interval,
                        reason_string: t(&p.reason_string),
                        user: user_from(&p.user_properties),
                        server_reference: t(&p.server_reference),
                        ..Props::default()
                    },
                    None => Props::default(),
                },
            }),
        })
    }
}
