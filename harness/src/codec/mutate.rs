//! Byte-level mutations of a frame (shared by the C05 campaigns and the byte-level round trip of C04)

use super::reference::{self, parse_header, Header};
use crate::engine::idx;
use proptest::prelude::*;
use proptest::sample::select;
use serde::{Deserialize, Serialize};

#[derive(Clone, Debug, Serialize, Deserialize)]
pub enum Mutation {
    Flip { pos: u16, bit: u8 },
    Set { pos: u16, val: u8 },
    /// overwrite one of the first bytes after the fixed header (lengths, flags, property length)
    SetNear { off: u8, val: u8 },
    /// cut the frame, leave the declared length alone
    Truncate { keep: u16 },
    /// cut the body and rewrite the declared length to match (complete frame, short body)
    TruncateFix { keep: u16 },
    /// add `delta` to the declared remaining length, body untouched
    LenDelta { delta: i8 },
    LenSet { val: u32 },
    Splice { pos: u16, bytes: Vec<u8>, fix_len: bool },
    Delete { pos: u16, n: u8, fix_len: bool },
}

pub fn rewrite_len(frame: &mut Vec<u8>, new_rl: usize) {
    if let Header::Complete { header_len, .. } = parse_header(frame) {
        let mut h = vec![frame[0]];
        reference::put_varint(&mut h, new_rl.min(268_435_455));
        frame.splice(0..header_len, h);
    }
}

pub fn apply(frame: &mut Vec<u8>, m: &Mutation) {
    if frame.is_empty() {
        return;
    }
    let hl = match parse_header(frame) {
        Header::Complete { header_len, .. } => header_len,
        _ => 1,
    };
    match m {
        Mutation::Flip { pos, bit } => {
            let i = idx(*pos, frame.len());
            frame[i] ^= 1 << (bit % 8);
        }
        Mutation::Set { pos, val } => {
            let i = idx(*pos, frame.len());
            frame[i] = *val;
        }
        Mutation::SetNear { off, val } => {
            let i = (hl + (*off as usize % 12)).min(frame.len() - 1);
            frame[i] = *val;
        }
        Mutation::Truncate { keep } => {
            let k = idx(*keep, frame.len());
            frame.truncate(k);
        }
        Mutation::TruncateFix { keep } => {
            let body = frame.len().saturating_sub(hl);
            let k = idx(*keep, body + 1);
            frame.truncate(hl + k);
            rewrite_len(frame, k);
        }
        Mutation::LenDelta { delta } => {
            if let Header::Complete { remaining, .. } = parse_header(frame) {
                rewrite_len(frame, (remaining as i64 + *delta as i64).max(0) as usize);
            }
        }
        Mutation::LenSet { val } => rewrite_len(frame, *val as usize),
        Mutation::Splice { pos, bytes, fix_len } => {
            let i = idx(*pos, frame.len() + 1).max(hl.min(frame.len()));
            frame.splice(i..i, bytes.iter().copied());
            if *fix_len {
                let body = frame.len().saturating_sub(hl);
                rewrite_len(frame, body);
            }
        }
        Mutation::Delete { pos, n, fix_len } => {
            let i = idx(*pos, frame.len()).max(hl.min(frame.len()));
            let e = (i + *n as usize).min(frame.len());
            frame.drain(i..e);
            if *fix_len {
                let body = frame.len().saturating_sub(hl);
                rewrite_len(frame, body);
            }
        }
    }
}

pub const BYTE_ALPHABET: [u8; 12] = [0x00, 0x01, 0x02, 0x03, 0x04, 0x0B, 0x1F, 0x26, 0x7F, 0x80, 0x81, 0xFF];

pub fn interesting_byte() -> BoxedStrategy<u8> {
    prop_oneof![3 => select(BYTE_ALPHABET.to_vec()), 1 => any::<u8>()].boxed()
}

pub fn mutation() -> BoxedStrategy<Mutation> {
    prop_oneof![
        3 => (any::<u16>(), 0u8..8).prop_map(|(pos, bit)| Mutation::Flip { pos, bit }),
        3 => (any::<u16>(), interesting_byte()).prop_map(|(pos, val)| Mutation::Set { pos, val }),
        4 => (0u8..12, interesting_byte()).prop_map(|(off, val)| Mutation::SetNear { off, val }),
        2 => any::<u16>().prop_map(|keep| Mutation::Truncate { keep }),
        4 => any::<u16>().prop_map(|keep| Mutation::TruncateFix { keep }),
        3 => (-4i8..=4).prop_map(|delta| Mutation::LenDelta { delta }),
        1 => select(vec![0u32, 1, 2, 127, 128, 16_383, 16_384, 2_097_151, 2_097_152, 268_435_455]).prop_map(|val| Mutation::LenSet { val }),
        2 => (any::<u16>(), prop::collection::vec(interesting_byte(), 1..=4), any::<bool>())
            .prop_map(|(pos, bytes, fix_len)| Mutation::Splice { pos, bytes, fix_len }),
        2 => (any::<u16>(), 1u8..=4, any::<bool>()).prop_map(|(pos, n, fix_len)| Mutation::Delete { pos, n, fix_len }),
    ]
    .boxed()
}

