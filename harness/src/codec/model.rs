//! Neutral packet model `M`: plain data, serde-serialisable, covers every packet type of
//! MQTT 3.1.1 and MQTT 5 that the four codecs can express, with every v5 property.
//!
//! Strings and binary blobs are stored in a compact generated form (`Txt`, `Bin`) so that a
//! 65535-byte string or a 2 MiB payload is a few bytes of case data; equality is defined on
//! the realised content.

use serde::{Deserialize, Serialize};

#[derive(Clone, Copy, Debug, PartialEq, Eq, Hash, Serialize, Deserialize)]
pub enum Ver {
    V4,
    V5,
}

impl Ver {
    pub fn name(self) -> &'static str {
        match self {
            Ver::V4 => "v4",
            Ver::V5 => "v5",
        }
    }
}

/// UTF-8 string of exactly `len` bytes: the characters of `pat` repeated while they fit,
/// padded with 'x'. `Txt::lit(s)` is `s` itself.
#[derive(Clone, Serialize, Deserialize)]
pub struct Txt {
    pub pat: String,
    pub len: u32,
}

impl Txt {
    pub fn lit(s: &str) -> Txt {
        Txt { pat: s.to_string(), len: s.len() as u32 }
    }
    pub fn get(&self) -> String {
        let n = self.len as usize;
        if self.pat.len() == n {
            return self.pat.clone();
        }
        let mut out = String::with_capacity(n);
        if !self.pat.is_empty() {
            'outer: loop {
                for ch in self.pat.chars() {
                    if out.len() + ch.len_utf8() > n {
                        break 'outer;
                    }
                    out.push(ch);
                }
            }
        }
        while out.len() < n {
            out.push('x');
        }
        out
    }
    pub fn is_empty(&self) -> bool {
        self.len == 0
    }
}

impl PartialEq for Txt {
    fn eq(&self, o: &Txt) -> bool {
        self.len == o.len && self.get() == o.get()
    }
}
impl Eq for Txt {}

impl std::fmt::Debug for Txt {
    fn fmt(&self, f: &mut std::fmt::Formatter<'_>) -> std::fmt::Result {
        if self.len <= 24 {
            write!(f, "{:?}", self.get())
        } else {
            let s = self.get();
            let head: String = s.chars().take(8).collect();
            write!(f, "Txt({head:?}.. {} bytes)", self.len)
        }
    }
}

/// Binary blob: generated (`byte i = seed + 31*i`) or literal
#[derive(Clone, Serialize, Deserialize)]
pub enum Bin {
    Gen { seed: u8, len: u32 },
    Lit(Vec<u8>),
}

impl Bin {
    pub fn get(&self) -> Vec<u8> {
        match self {
            Bin::Gen { seed, len } => (0..*len as usize)
                .map(|i| seed.wrapping_add((i as u8).wrapping_mul(31)).wrapping_add((i >> 8) as u8))
                .collect(),
            Bin::Lit(v) => v.clone(),
        }
    }
    pub fn len(&self) -> usize {
        match self {
            Bin::Gen { len, .. } => *len as usize,
            Bin::Lit(v) => v.len(),
        }
    }
    pub fn empty() -> Bin {
        Bin::Gen { seed: 0, len: 0 }
    }
}

impl PartialEq for Bin {
    fn eq(&self, o: &Bin) -> bool {
        self.len() == o.len() && self.get() == o.get()
    }
}
impl Eq for Bin {}

impl std::fmt::Debug for Bin {
    fn fmt(&self, f: &mut std::fmt::Formatter<'_>) -> std::fmt::Result {
        let v = self.get();
        if v.len() <= 16 {
            write!(f, "Bin{v:02x?}")
        } else {
            write!(f, "Bin({:02x?}.. {} bytes)", &v[..6], v.len())
        }
    }
}

/// All MQTT 5 properties (MQTT 5.0 §2.2.2.2). A packet type uses the subset the spec allows
/// for it; everything else stays `None`/empty.
#[derive(Clone, Default, PartialEq, Eq, Serialize, Deserialize)]
#[serde(default)]
pub struct Props {
    /// Representational only: hand the codec `Some(properties)` even when every property is
    /// absent (the wire form is identical: property length 0). Ignored by `normalise`.
    #[serde(skip_serializing_if = "is_false")]
    pub force_some: bool,
    #[serde(skip_serializing_if = "Option::is_none")]
    pub payload_format: Option<u8>, // 1
    #[serde(skip_serializing_if = "Option::is_none")]
    pub message_expiry: Option<u32>, // 2
    #[serde(skip_serializing_if = "Option::is_none")]
    pub content_type: Option<Txt>, // 3
    #[serde(skip_serializing_if = "Option::is_none")]
    pub response_topic: Option<Txt>, // 8
    #[serde(skip_serializing_if = "Option::is_none")]
    pub correlation_data: Option<Bin>, // 9
    #[serde(skip_serializing_if = "Vec::is_empty")]
    pub subscription_ids: Vec<u32>, // 11
    #[serde(skip_serializing_if = "Option::is_none")]
    pub session_expiry: Option<u32>, // 17
    #[serde(skip_serializing_if = "Option::is_none")]
    pub assigned_client_id: Option<Txt>, // 18
    #[serde(skip_serializing_if = "Option::is_none")]
    pub server_keep_alive: Option<u16>, // 19
    #[serde(skip_serializing_if = "Option::is_none")]
    pub auth_method: Option<Txt>, // 21
    #[serde(skip_serializing_if = "Option::is_none")]
    pub auth_data: Option<Bin>, // 22
    #[serde(skip_serializing_if = "Option::is_none")]
    pub request_problem_info: Option<u8>, // 23
    #[serde(skip_serializing_if = "Option::is_none")]
    pub will_delay: Option<u32>, // 24
    #[serde(skip_serializing_if = "Option::is_none")]
    pub request_response_info: Option<u8>, // 25
    #[serde(skip_serializing_if = "Option::is_none")]
    pub response_info: Option<Txt>, // 26
    #[serde(skip_serializing_if = "Option::is_none")]
    pub server_reference: Option<Txt>, // 28
    #[serde(skip_serializing_if = "Option::is_none")]
    pub reason_string: Option<Txt>, // 31
    #[serde(skip_serializing_if = "Option::is_none")]
    pub receive_max: Option<u16>, // 33
    #[serde(skip_serializing_if = "Option::is_none")]
    pub topic_alias_max: Option<u16>, // 34
    #[serde(skip_serializing_if = "Option::is_none")]
    pub topic_alias: Option<u16>, // 35
    #[serde(skip_serializing_if = "Option::is_none")]
    pub max_qos: Option<u8>, // 36
    #[serde(skip_serializing_if = "Option::is_none")]
    pub retain_available: Option<u8>, // 37
    #[serde(skip_serializing_if = "Vec::is_empty")]
    pub user: Vec<(Txt, Txt)>, // 38
    #[serde(skip_serializing_if = "Option::is_none")]
    pub max_packet_size: Option<u32>, // 39
    #[serde(skip_serializing_if = "Option::is_none")]
    pub wildcard_sub_available: Option<u8>, // 40
    #[serde(skip_serializing_if = "Option::is_none")]
    pub sub_ids_available: Option<u8>, // 41
    #[serde(skip_serializing_if = "Option::is_none")]
    pub shared_sub_available: Option<u8>, // 42
}

impl std::fmt::Debug for Props {
    /// only the properties that are present
    fn fmt(&self, f: &mut std::fmt::Formatter<'_>) -> std::fmt::Result {
        let mut d = f.debug_struct("Props");
        if self.force_some {
            d.field("force_some", &true);
        }
        macro_rules! o {
            ($($name:ident),*) => { $( if let Some(v) = &self.$name { d.field(stringify!($name), v); } )* };
        }
        o!(payload_format, message_expiry, content_type, response_topic, correlation_data);
        if !self.subscription_ids.is_empty() {
            d.field("subscription_ids", &self.subscription_ids);
        }
        o!(session_expiry, assigned_client_id, server_keep_alive, auth_method, auth_data, request_problem_info, will_delay,
           request_response_info, response_info, server_reference, reason_string, receive_max, topic_alias_max, topic_alias,
           max_qos, retain_available);
        if !self.user.is_empty() {
            d.field("user", &self.user);
        }
        o!(max_packet_size, wildcard_sub_available, sub_ids_available, shared_sub_available);
        d.finish()
    }
}

fn is_false(b: &bool) -> bool {
    !*b
}

impl Props {
    /// Number of property *kinds* present (user properties / subscription ids count once)
    pub fn popcount(&self) -> u32 {
        let o = |b: bool| b as u32;
        o(self.payload_format.is_some())
            + o(self.message_expiry.is_some())
            + o(self.content_type.is_some())
            + o(self.response_topic.is_some())
            + o(self.correlation_data.is_some())
            + o(!self.subscription_ids.is_empty())
            + o(self.session_expiry.is_some())
            + o(self.assigned_client_id.is_some())
            + o(self.server_keep_alive.is_some())
            + o(self.auth_method.is_some())
            + o(self.auth_data.is_some())
            + o(self.request_problem_info.is_some())
            + o(self.will_delay.is_some())
            + o(self.request_response_info.is_some())
            + o(self.response_info.is_some())
            + o(self.server_reference.is_some())
            + o(self.reason_string.is_some())
            + o(self.receive_max.is_some())
            + o(self.topic_alias_max.is_some())
            + o(self.topic_alias.is_some())
            + o(self.max_qos.is_some())
            + o(self.retain_available.is_some())
            + o(!self.user.is_empty())
            + o(self.max_packet_size.is_some())
            + o(self.wildcard_sub_available.is_some())
            + o(self.sub_ids_available.is_some())
            + o(self.shared_sub_available.is_some())
    }
    pub fn is_empty(&self) -> bool {
        self.popcount() == 0
    }
    /// true when some property carries a variable-length value
    pub fn has_varlen(&self) -> bool {
        self.content_type.is_some()
            || self.response_topic.is_some()
            || self.correlation_data.is_some()
            || !self.subscription_ids.is_empty()
            || self.assigned_client_id.is_some()
            || self.auth_method.is_some()
            || self.auth_data.is_some()
            || self.response_info.is_some()
            || self.server_reference.is_some()
            || self.reason_string.is_some()
            || !self.user.is_empty()
    }
}

#[derive(Clone, Debug, PartialEq, Eq, Serialize, Deserialize)]
pub struct Login {
    pub username: Txt,
    /// empty = no password (the four codecs cannot express a present, zero-length password)
    pub password: Txt,
}

#[derive(Clone, Debug, PartialEq, Eq, Serialize, Deserialize)]
pub struct Will {
    pub topic: Txt,
    pub message: Bin,
    pub qos: u8,
    pub retain: bool,
    #[serde(default)]
    pub props: Props,
}

#[derive(Clone, Debug, PartialEq, Eq, Serialize, Deserialize)]
pub struct Connect {
    pub keep_alive: u16,
    pub client_id: Txt,
    pub clean: bool,
    pub will: Option<Will>,
    pub login: Option<Login>,
    #[serde(default)]
    pub props: Props,
}

#[derive(Clone, Debug, PartialEq, Eq, Serialize, Deserialize)]
pub struct ConnAck {
    pub session_present: bool,
    /// wire value of the return / reason code
    pub code: u8,
    #[serde(default)]
    pub props: Props,
}

#[derive(Clone, Debug, PartialEq, Eq, Serialize, Deserialize)]
pub struct Publish {
    pub dup: bool,
    pub qos: u8,
    pub retain: bool,
    pub topic: Txt,
    /// 0 exactly when qos == 0
    pub pkid: u16,
    pub payload: Bin,
    #[serde(default)]
    pub props: Props,
}

/// PUBACK / PUBREC / PUBREL / PUBCOMP
#[derive(Clone, Debug, PartialEq, Eq, Serialize, Deserialize)]
pub struct Ack {
    pub pkid: u16,
    /// wire value of the reason code (0 in v4)
    pub reason: u8,
    #[serde(default)]
    pub props: Props,
}

#[derive(Clone, Debug, PartialEq, Eq, Serialize, Deserialize)]
pub struct Filter {
    pub path: Txt,
    pub qos: u8,
    pub nolocal: bool,
    pub preserve_retain: bool,
    /// retain handling 0, 1, 2
    pub retain_rule: u8,
}

#[derive(Clone, Debug, PartialEq, Eq, Serialize, Deserialize)]
pub struct Subscribe {
    pub pkid: u16,
    pub filters: Vec<Filter>,
    #[serde(default)]
    pub props: Props,
}

#[derive(Clone, Debug, PartialEq, Eq, Serialize, Deserialize)]
pub struct SubAck {
    pub pkid: u16,
    /// wire values
    pub codes: Vec<u8>,
    #[serde(default)]
    pub props: Props,
}

#[derive(Clone, Debug, PartialEq, Eq, Serialize, Deserialize)]
pub struct Unsubscribe {
    pub pkid: u16,
    pub filters: Vec<Txt>,
    #[serde(default)]
    pub props: Props,
}

#[derive(Clone, Debug, PartialEq, Eq, Serialize, Deserialize)]
pub struct UnsubAck {
    pub pkid: u16,
    /// wire values (empty in v4)
    pub reasons: Vec<u8>,
    #[serde(default)]
    pub props: Props,
}

#[derive(Clone, Debug, PartialEq, Eq, Serialize, Deserialize)]
pub struct Disconnect {
    pub reason: u8,
    #[serde(default)]
    pub props: Props,
}

#[derive(Clone, Debug, PartialEq, Eq, Serialize, Deserialize)]
pub enum M {
    Connect(Connect),
    ConnAck(ConnAck),
    Publish(Publish),
    PubAck(Ack),
    PubRec(Ack),
    PubRel(Ack),
    PubComp(Ack),
    Subscribe(Subscribe),
    SubAck(SubAck),
    Unsubscribe(Unsubscribe),
    UnsubAck(UnsubAck),
    PingReq,
    PingResp,
    Disconnect(Disconnect),
}

pub const TYPE_NAMES: [&str; 16] = [
    "Reserved0", "Connect", "ConnAck", "Publish", "PubAck", "PubRec", "PubRel", "PubComp", "Subscribe", "SubAck",
    "Unsubscribe", "UnsubAck", "PingReq", "PingResp", "Disconnect", "Auth",
];

impl M {
    /// MQTT control packet type (fixed header high nibble)
    pub fn type_nibble(&self) -> u8 {
        match self {
            M::Connect(_) => 1,
            M::ConnAck(_) => 2,
            M::Publish(_) => 3,
            M::PubAck(_) => 4,
            M::PubRec(_) => 5,
            M::PubRel(_) => 6,
            M::PubComp(_) => 7,
            M::Subscribe(_) => 8,
            M::SubAck(_) => 9,
            M::Unsubscribe(_) => 10,
            M::UnsubAck(_) => 11,
            M::PingReq => 12,
            M::PingResp => 13,
            M::Disconnect(_) => 14,
        }
    }
    pub fn type_name(&self) -> &'static str {
        TYPE_NAMES[self.type_nibble() as usize]
    }
    /// Sent by a client to a server (MQTT 3.1.1 table 2.1 / MQTT 5 table 2-1)
    pub fn client_to_server(&self, ver: Ver) -> bool {
        match self {
            M::Connect(_) | M::Subscribe(_) | M::Unsubscribe(_) | M::PingReq => true,
            M::Publish(_) | M::PubAck(_) | M::PubRec(_) | M::PubRel(_) | M::PubComp(_) => true,
            M::Disconnect(_) => {
                let _ = ver;
                true
            }
            _ => false,
        }
    }
    /// Sent by a server to a client
    pub fn server_to_client(&self, ver: Ver) -> bool {
        match self {
            M::ConnAck(_) | M::SubAck(_) | M::UnsubAck(_) | M::PingResp => true,
            M::Publish(_) | M::PubAck(_) | M::PubRec(_) | M::PubRel(_) | M::PubComp(_) => true,
            // a server-sent DISCONNECT exists only in MQTT 5
            M::Disconnect(_) => ver == Ver::V5,
            _ => false,
        }
    }
    /// The packet's top-level properties (None for PINGREQ/PINGRESP)
    pub fn props(&self) -> Option<&Props> {
        Some(match self {
            M::Connect(p) => &p.props,
            M::ConnAck(p) => &p.props,
            M::Publish(p) => &p.props,
            M::PubAck(p) | M::PubRec(p) | M::PubRel(p) | M::PubComp(p) => &p.props,
            M::Subscribe(p) => &p.props,
            M::SubAck(p) => &p.props,
            M::Unsubscribe(p) => &p.props,
            M::UnsubAck(p) => &p.props,
            M::Disconnect(p) => &p.props,
            M::PingReq | M::PingResp => return None,
        })
    }
    pub fn props_mut(&mut self) -> Option<&mut Props> {
        Some(match self {
            M::Connect(p) => &mut p.props,
            M::ConnAck(p) => &mut p.props,
            M::Publish(p) => &mut p.props,
            M::PubAck(p) | M::PubRec(p) | M::PubRel(p) | M::PubComp(p) => &mut p.props,
            M::Subscribe(p) => &mut p.props,
            M::SubAck(p) => &mut p.props,
            M::Unsubscribe(p) => &mut p.props,
            M::UnsubAck(p) => &mut p.props,
            M::Disconnect(p) => &mut p.props,
            M::PingReq | M::PingResp => return None,
        })
    }
    /// Property kinds present, including will properties
    pub fn prop_popcount(&self) -> u32 {
        let mut n = self.props().map(|p| p.popcount()).unwrap_or(0);
        if let M::Connect(c) = self {
            if let Some(w) = &c.will {
                n += w.props.popcount();
            }
        }
        n
    }
    /// Non-triviality rule of C04: at least one variable-length field
    pub fn has_varlen_field(&self) -> bool {
        match self {
            M::Connect(_) | M::Publish(_) | M::Subscribe(_) | M::Unsubscribe(_) => true,
            M::SubAck(_) => true,
            M::UnsubAck(u) => !u.reasons.is_empty() || u.props.has_varlen(),
            M::PingReq | M::PingResp => false,
            _ => self.props().map(|p| p.has_varlen()).unwrap_or(false),
        }
    }
    /// Removes representational freedom: `Some(empty properties)` == no properties
    pub fn normalise(mut self) -> M {
        if let Some(p) = self.props_mut() {
            p.force_some = false;
        }
        if let M::Connect(c) = &mut self {
            if let Some(w) = &mut c.will {
                w.props.force_some = false;
            }
        }
        self
    }
}

/// Names of the top-level fields in which two packet values differ (structural part of a
/// mismatch signature; never contains values)
pub fn diff_fields(a: &M, b: &M) -> String {
    let mut d: Vec<&'static str> = Vec::new();
    macro_rules! cmp {
        ($x:expr, $y:expr, $($f:ident),*) => {{ $( if $x.$f != $y.$f { d.push(stringify!($f)); } )* }};
    }
    match (a, b) {
        (M::Connect(x), M::Connect(y)) => cmp!(x, y, keep_alive, client_id, clean, will, login, props),
        (M::ConnAck(x), M::ConnAck(y)) => cmp!(x, y, session_present, code, props),
        (M::Publish(x), M::Publish(y)) => cmp!(x, y, dup, qos, retain, topic, pkid, payload, props),
        (M::PubAck(x), M::PubAck(y)) | (M::PubRec(x), M::PubRec(y)) | (M::PubRel(x), M::PubRel(y)) | (M::PubComp(x), M::PubComp(y)) => {
            cmp!(x, y, pkid, reason, props)
        }
        (M::Subscribe(x), M::Subscribe(y)) => cmp!(x, y, pkid, filters, props),
        (M::SubAck(x), M::SubAck(y)) => cmp!(x, y, pkid, codes, props),
        (M::Unsubscribe(x), M::Unsubscribe(y)) => cmp!(x, y, pkid, filters, props),
        (M::UnsubAck(x), M::UnsubAck(y)) => cmp!(x, y, pkid, reasons, props),
        (M::Disconnect(x), M::Disconnect(y)) => cmp!(x, y, reason, props),
        (M::PingReq, M::PingReq) | (M::PingResp, M::PingResp) => {}
        _ => d.push("packet_type"),
    }
    d.join("+")
}
