//! Oracles of C04 (round trip, cross decode) and C05 (totality, bounds, chunking independence).

use super::model::*;
use super::reference::{self, parse_header, Header};
use super::{encode_with, Codec, Kind, Out, C4, C5, D4, D5};
use crate::engine::{guard, Failure};
use crate::{ensure, fail};
use bytes::BytesMut;
use futures_util::{FutureExt, StreamExt};
use tokio::io::AsyncWriteExt;

/// Development switch: with VERIF_IGNORE_KNOWN_REGIONS set the main campaigns do not skip
/// the known-finding regions (used to show that a fix makes a region unnecessary).
pub fn exclusions_enabled() -> bool {
    static ON: std::sync::OnceLock<bool> = std::sync::OnceLock::new();
    // every codec finding listed in DESIGN.md §9 has been fixed in /repo (see KNOWN_FINDINGS.txt):
    // no region is excluded any more. VERIF_CODEC_REGIONS=1 re-enables the old exclusions.
    *ON.get_or_init(|| std::env::var_os("VERIF_CODEC_REGIONS").is_some())
}

// =======================================================================================
// C04

pub const SENTINEL: [u8; 3] = [0xA5, 0x5A, 0xC3];

/// What one executed C04 case covered (for the evidence)
#[derive(Default, Debug)]
pub struct RtObs {
    /// remaining-length width (1..=4) of the encoding, per codec that encoded
    pub widths: Vec<(Kind, usize)>,
    pub clauses: u32,
    pub excluded: Vec<&'static str>,
}

/// Known-finding regions of C04 as predicates on the *case* (see KNOWN_FINDINGS.txt).
/// Returns (region name, codec whose decoder is affected or None when every use is affected)
pub fn known_regions_c04(ver: Ver, m: &M) -> Vec<(&'static str, Option<Kind>)> {
    let mut v = Vec::new();
    if ver != Ver::V5 {
        return v;
    }
    match m {
        M::Disconnect(d) if d.reason != 0 && d.props.is_empty() => {
            v.push(("v5_disconnect_reason_without_properties", None));
        }
        M::Disconnect(d) if d.reason == 0 && d.props.is_empty() => {
            v.push(("client_v5_disconnect_remaining_length_0", Some(Kind::ClientV5)));
        }
        M::Publish(p) => {
            if subid_cursor_region(&p.props) {
                v.push(("v5_publish_subscription_id_cursor", None));
            }
        }
        M::ConnAck(_) | M::UnsubAck(_) => {
            v.push(("broker_v5_decodes_connack_unsuback", Some(Kind::BrokerV5)));
        }
        _ => {}
    }
    v
}

/// PUBLISH properties for which the v5 decoders' property cursor (which counts every
/// subscription identifier one byte too long) reaches the declared property length before
/// the last properties have been read. Both crates write subscription identifiers after
/// every other property except the content type, which comes last.
pub fn subid_cursor_region(p: &Props) -> bool {
    let ct = p.content_type.as_ref().map(|c| 3 + c.len as usize).unwrap_or(0);
    let sizes: Vec<usize> = p.subscription_ids.iter().map(|i| 1 + reference::varint_width(*i as usize)).collect();
    let mut unread: usize = sizes.iter().sum::<usize>() + ct;
    let mut ahead = 0usize;
    for s in &sizes {
        if ahead >= unread {
            return true;
        }
        unread -= s;
        ahead += 1;
    }
    ct > 0 && ahead >= unread
}

struct Encoded<P> {
    p: P,
    bytes: Vec<u8>,
    remaining: usize,
}

fn describe_diff(got: &M, want: &M) -> String {
    let g = format!("{got:?}");
    let w = format!("{want:?}");
    let cut = |s: &str| if s.len() > 600 { format!("{}…", &s[..s.char_indices().nth(600).map(|(i, _)| i).unwrap_or(s.len())]) } else { s.to_string() };
    format!("got {} expected {}", cut(&g), cut(&w))
}

/// clause 1: encode succeeds; sizes agree; the bytes are a frame carrying exactly `norm`
fn check_encode<K: Codec>(ver: Ver, m: &M, norm: &M) -> Result<Encoded<K::P>, Failure> {
    let k = K::KIND.name();
    let ty = m.type_name();
    let Some((p, bytes, ret)) = encode_with::<K>(m)? else {
        fail!(format!("harness:unrepresentable:{k}:{ty}"), "the adapter cannot express {m:?} for {k}")
    };
    let n = match ret {
        Ok(n) => n,
        Err(e) => fail!(format!("encode_error:{k}:{ty}"), "encoding a well-formed {ty} failed: {e}; packet {m:?}"),
    };
    ensure!(
        n == bytes.len(),
        format!("encode_size:{k}:{ty}"),
        "write() returned {n} but appended {} bytes: {:02x?}; packet {m:?}",
        bytes.len(),
        &bytes[..bytes.len().min(48)]
    );
    if let Some(sz) = guard(&format!("size:{k}"), || K::size(&p))? {
        ensure!(sz == bytes.len(), format!("size_fn:{k}:{ty}"), "size() = {sz}, {} bytes written; packet {m:?}", bytes.len());
    }
    let Header::Complete { byte1, remaining, header_len } = parse_header(&bytes) else {
        fail!(format!("encode_frame_length:{k}:{ty}"), "the encoding has no complete fixed header: {:02x?}", &bytes[..bytes.len().min(16)])
    };
    ensure!(
        header_len + remaining == bytes.len(),
        format!("encode_frame_length:{k}:{ty}"),
        "fixed header declares a frame of {} bytes, {} bytes were written: {:02x?}; packet {m:?}",
        header_len + remaining,
        bytes.len(),
        &bytes[..bytes.len().min(48)]
    );
    ensure!(
        header_len == 1 + reference::varint_width(remaining),
        format!("encode_length_not_minimal:{k}:{ty}"),
        "remaining length {remaining} encoded in {} bytes",
        header_len - 1
    );
    let (want_byte1, _) = reference::encode_body(ver, m);
    ensure!(
        byte1 == want_byte1,
        format!("encode_fixed_header:{k}:{ty}"),
        "first byte {byte1:#04x}, the specification requires {want_byte1:#04x}; packet {m:?}"
    );
    match reference::decode(ver, &bytes) {
        Ok(got) => ensure!(
            got == *norm,
            format!("encode_content:{k}:{ty}:{}", diff_fields(&got, norm)),
            "the reference decoder reads the encoding differently: {}",
            describe_diff(&got, norm)
        ),
        Err(e) => fail!(
            format!("encode_content:{k}:{ty}:undecodable"),
            "the reference decoder rejects the encoding ({e}): {:02x?}; packet {m:?}",
            &bytes[..bytes.len().min(64)]
        ),
    }
    Ok(Encoded { p, bytes, remaining })
}

/// clauses 2/3: decode(bytes + sentinel) == norm, exactly the sentinel left
fn check_decode<K: Codec>(tag: &str, ty: &str, bytes: &[u8], remaining: usize, norm: &M) -> Result<K::P, Failure> {
    let k = K::KIND.name();
    let mut buf = BytesMut::with_capacity(bytes.len() + 3);
    buf.extend_from_slice(bytes);
    buf.extend_from_slice(&SENTINEL);
    // the configured maximum equals the declared remaining length: must still be accepted
    let out = guard(&format!("decode:{k}"), || K::decode(&mut buf, remaining))?;
    let p = match out {
        Out::Packet(p) => p,
        Out::NeedMore => fail!(format!("{tag}_decode_error:{k}:{ty}:NeedMore"), "decoder asks for more bytes on a complete frame {:02x?}", &bytes[..bytes.len().min(48)]),
        Out::Error(v, e) => fail!(
            format!("{tag}_decode_error:{k}:{ty}:{v}"),
            "decoding failed: {e}; frame {:02x?}; packet {norm:?}",
            &bytes[..bytes.len().min(48)]
        ),
    };
    ensure!(
        buf[..] == SENTINEL,
        format!("{tag}_consumed:{k}:{ty}"),
        "{} bytes left after decoding, expected exactly the 3 sentinel bytes",
        buf.len()
    );
    match K::from(&p) {
        Some(got) => ensure!(got == *norm, format!("{tag}_mismatch:{k}:{ty}:{}", diff_fields(&got, norm)), "{}", describe_diff(&got, norm)),
        None => fail!(format!("{tag}_mismatch:{k}:{ty}:outside_model"), "decoded packet is outside the model: {p:?}"),
    }
    Ok(p)
}

fn roundtrip_one<K: Codec>(ver: Ver, m: &M, norm: &M, skip_decode: bool, o: &mut RtObs) -> Result<Option<Vec<u8>>, Failure> {
    let k = K::KIND.name();
    let ty = m.type_name();
    let enc = check_encode::<K>(ver, m, norm)?;
    o.widths.push((K::KIND, reference::varint_width(enc.remaining)));
    o.clauses += 1;
    // encoding is deterministic
    let again = encode_with::<K>(m)?.map(|(_, b, _)| b);
    ensure!(again.as_deref() == Some(&enc.bytes[..]), format!("encode_not_deterministic:{k}:{ty}"), "two encodings of the same value differ");
    if skip_decode {
        return Ok(Some(enc.bytes));
    }
    let p = check_decode::<K>("roundtrip", ty, &enc.bytes, enc.remaining, norm)?;
    o.clauses += 1;
    // clause 4: encode(decode(encode(M))) == encode(M). `Some(empty properties)` decodes to
    // `None`, whose (equally valid) wire form may be shorter: compare with encode(normalise(M))
    let expect = if *m == *norm && !has_forced_some(m) {
        enc.bytes.clone()
    } else {
        match encode_with::<K>(norm)? {
            Some((_, b, Ok(_))) => b,
            _ => enc.bytes.clone(),
        }
    };
    let mut out = BytesMut::new();
    let r = guard(&format!("encode:{k}"), || K::encode(&p, &mut out))?;
    ensure!(
        r.is_ok() && out[..] == expect[..],
        format!("reencode_differs:{k}:{ty}"),
        "re-encoding the decoded packet gives {:02x?} ({r:?}), encoding of the (normalised) value {:02x?}",
        &out[..out.len().min(48)],
        &expect[..expect.len().min(48)]
    );
    o.clauses += 1;
    let _ = enc.p;
    Ok(Some(enc.bytes))
}

fn has_forced_some(m: &M) -> bool {
    m.props().is_some_and(|p| p.force_some) || matches!(m, M::Connect(c) if c.will.as_ref().is_some_and(|w| w.props.force_some))
}

fn cross<Dec: Codec>(from: Kind, ty: &str, bytes: &[u8], norm: &M, o: &mut RtObs) -> Result<(), Failure> {
    let Header::Complete { remaining, .. } = parse_header(bytes) else { unreachable!() };
    let tag = format!("cross:{}->", from.name());
    check_decode::<Dec>(&tag, ty, bytes, remaining, norm)?;
    o.clauses += 1;
    Ok(())
}

/// The C04 oracle on one packet value. `only`: restrict to one codec (probe campaigns);
/// `exclude_known`: skip what lies in a known-finding region (main campaign).
pub fn roundtrip_oracle(ver: Ver, m: &M, only: Option<Kind>, exclude_known: bool, o: &mut RtObs) -> Result<(), Failure> {
    let norm = m.clone().normalise();
    let regions = if exclude_known && exclusions_enabled() { known_regions_c04(ver, m) } else { vec![] };
    for (name, scope) in &regions {
        o.excluded.push(name);
        if scope.is_none() {
            return Ok(());
        }
    }
    let dec_excluded = |k: Kind| regions.iter().any(|(_, s)| *s == Some(k));
    let ty = m.type_name();
    let want = |k: Kind| only.is_none() || only == Some(k);
    let (ck, bk) = (Kind::client(ver), Kind::broker(ver));
    let mut cbytes = None;
    let mut bbytes = None;
    if want(ck) {
        cbytes = match ver {
            Ver::V4 => roundtrip_one::<C4>(ver, m, &norm, dec_excluded(ck), o)?,
            Ver::V5 => roundtrip_one::<C5>(ver, m, &norm, dec_excluded(ck), o)?,
        };
    }
    if want(bk) {
        bbytes = match ver {
            Ver::V4 => roundtrip_one::<D4>(ver, m, &norm, dec_excluded(bk), o)?,
            Ver::V5 => roundtrip_one::<D5>(ver, m, &norm, dec_excluded(bk), o)?,
        };
    }
    // clause 3: cross decode in the direction(s) the packet travels
    if only.is_none() || only == Some(bk) {
        if let (true, Some(b), false) = (m.client_to_server(ver), &cbytes, dec_excluded(bk)) {
            match ver {
                Ver::V4 => cross::<D4>(ck, ty, b, &norm, o)?,
                Ver::V5 => cross::<D5>(ck, ty, b, &norm, o)?,
            }
        } else if m.client_to_server(ver) && cbytes.is_none() && !dec_excluded(bk) {
            // probe restricted to the broker: encode with the client without judging it
            if let Some((_, b, Ok(_))) = match ver {
                Ver::V4 => encode_with::<C4>(m)?.map(|(_, b, r)| ((), b, r)),
                Ver::V5 => encode_with::<C5>(m)?.map(|(_, b, r)| ((), b, r)),
            } {
                if parse_header(&b).frame_len() == Some(b.len()) {
                    match ver {
                        Ver::V4 => cross::<D4>(ck, ty, &b, &norm, o)?,
                        Ver::V5 => cross::<D5>(ck, ty, &b, &norm, o)?,
                    }
                }
            }
        }
    }
    if only.is_none() || only == Some(ck) {
        if let (true, Some(b), false) = (m.server_to_client(ver), &bbytes, dec_excluded(ck)) {
            match ver {
                Ver::V4 => cross::<C4>(bk, ty, b, &norm, o)?,
                Ver::V5 => cross::<C5>(bk, ty, b, &norm, o)?,
            }
        } else if m.server_to_client(ver) && bbytes.is_none() && !dec_excluded(ck) {
            if let Some((_, b, Ok(_))) = match ver {
                Ver::V4 => encode_with::<D4>(m)?.map(|(_, b, r)| ((), b, r)),
                Ver::V5 => encode_with::<D5>(m)?.map(|(_, b, r)| ((), b, r)),
            } {
                if parse_header(&b).frame_len() == Some(b.len()) {
                    match ver {
                        Ver::V4 => cross::<C4>(bk, ty, &b, &norm, o)?,
                        Ver::V5 => cross::<C5>(bk, ty, &b, &norm, o)?,
                    }
                }
            }
        }
    }
    Ok(())
}

/// Fuzz entry: arbitrary bytes; whenever a decoder accepts a first frame that the model can
/// express (and that is outside the known-finding regions), re-encoding and decoding again
/// must give an equal packet.
pub fn roundtrip_from_bytes(bytes: &[u8], accepted: &std::cell::Cell<u32>) -> Result<(), Failure> {
    fn one<K: Codec>(bytes: &[u8], accepted: &std::cell::Cell<u32>) -> Result<(), Failure> {
        let k = K::KIND.name();
        let mut buf = BytesMut::from(bytes);
        if known_region_c05(K::KIND, usize::MAX, bytes).is_some() {
            return Ok(());
        }
        let Out::Packet(p) = guard(&format!("decode:{k}"), || K::decode(&mut buf, usize::MAX))? else { return Ok(()) };
        let Some(m) = K::from(&p) else { return Ok(()) };
        if !known_regions_c04(K::KIND.ver(), &m).is_empty() {
            return Ok(());
        }
        accepted.set(accepted.get() + 1);
        let ty = m.type_name();
        let mut out = BytesMut::new();
        let r = guard(&format!("encode:{k}"), || K::encode(&p, &mut out))?;
        ensure!(r.is_ok(), format!("reencode_error:{k}:{ty}"), "decoder accepted {p:?} but the encoder refuses it: {r:?}");
        ensure!(r == Ok(out.len()), format!("encode_size:{k}:{ty}"), "write() returned {r:?}, appended {}", out.len());
        let mut buf2 = out.clone();
        match guard(&format!("decode:{k}"), || K::decode(&mut buf2, usize::MAX))? {
            Out::Packet(p2) => {
                ensure!(p2 == p && buf2.is_empty(), format!("roundtrip_mismatch:{k}:{ty}"), "{p2:?} != {p:?} ({} bytes left)", buf2.len())
            }
            other => fail!(format!("roundtrip_decode_error:{k}:{ty}"), "re-encoded packet does not decode: {other:?}"),
        }
        Ok(())
    }
    one::<C4>(bytes, accepted)?;
    one::<C5>(bytes, accepted)?;
    one::<D4>(bytes, accepted)?;
    one::<D5>(bytes, accepted)
}

// =======================================================================================
// C05

/// How a run over a byte stream ended
#[derive(Clone, Debug, PartialEq)]
pub enum End {
    /// first error (variant name; "?" when the driver hides it)
    Error(String),
    /// all bytes delivered, the decoder waits for more; `leftover` bytes are buffered
    NeedMore { leftover: usize },
    /// stream drivers after the peer closed: clean = nothing was buffered
    Eof { clean: bool },
}

#[derive(Clone, Debug)]
pub struct Run<P> {
    pub packets: Vec<P>,
    pub end: End,
}

/// One decode call that got past the fixed header (C05 non-triviality)
#[derive(Clone, Debug, PartialEq, Eq, Hash)]
pub struct Reached {
    pub nibble: u8,
    pub outcome: &'static str,
    pub width: usize,
}

#[derive(Default, Debug)]
pub struct Trace {
    pub reached: Vec<Reached>,
    pub decode_calls: u64,
    pub chunkings: u64,
}

/// Direct driver: append chunk, decode until the decoder asks for more. Every call is
/// checked against the reference framer.
pub fn direct_run<K: Codec>(max: usize, chunks: &[&[u8]], mut trace: Option<&mut Trace>) -> Result<Run<K::P>, Failure> {
    let k = K::KIND.name();
    let mut buf = BytesMut::new();
    let mut packets = Vec::new();
    for chunk in chunks {
        buf.extend_from_slice(chunk);
        loop {
            let before = buf.to_vec();
            let hdr = parse_header(&before);
            let out = guard(&format!("decode:{k}"), || K::decode(&mut buf, max))?;
            let consumed = before.len().checked_sub(buf.len());
            let Some(consumed) = consumed else {
                fail!(format!("buffer_grew:{k}"), "decoder left {} bytes in a buffer that held {}", buf.len(), before.len())
            };
            ensure!(
                buf[..] == before[consumed..],
                format!("buffer_corrupted:{k}"),
                "the bytes left in the buffer are not the unread suffix of the input {:02x?}",
                &before[..before.len().min(32)]
            );
            let complete = match hdr {
                Header::Complete { remaining, header_len, .. } => before.len() >= header_len + remaining,
                _ => false,
            };
            if let (Some(t), Header::Complete { byte1, remaining, header_len }) = (trace.as_deref_mut(), hdr) {
                t.decode_calls += 1;
                let nibble = byte1 >> 4;
                if complete && remaining <= max && (1..=14).contains(&nibble) {
                    t.reached.push(Reached {
                        nibble,
                        outcome: match &out {
                            Out::Packet(_) => "packet",
                            Out::NeedMore => "need_more",
                            Out::Error(..) => "error",
                        },
                        width: header_len - 1,
                    });
                }
            }
            match out {
                Out::Packet(p) => {
                    let Header::Complete { remaining, header_len, .. } = hdr else {
                        fail!(format!("packet_without_frame:{k}"), "a packet was yielded from {:02x?} whose fixed header is {hdr:?}", &before[..before.len().min(16)])
                    };
                    ensure!(
                        complete,
                        format!("packet_from_incomplete_frame:{k}"),
                        "a packet was yielded from {} bytes, the header declares {}: {:02x?}",
                        before.len(),
                        header_len + remaining,
                        &before[..before.len().min(16)]
                    );
                    ensure!(
                        consumed == header_len + remaining,
                        format!("consumed_wrong_length:{k}"),
                        "{consumed} bytes consumed for a frame of {} bytes: {:02x?}",
                        header_len + remaining,
                        &before[..before.len().min(16)]
                    );
                    ensure!(
                        remaining <= max,
                        format!("accepted_over_limit:{k}"),
                        "frame with remaining length {remaining} accepted, configured maximum {max}"
                    );
                    packets.push(p);
                }
                Out::NeedMore => {
                    ensure!(
                        hdr != Header::Malformed,
                        format!("need_more_on_malformed_length:{k}"),
                        "the remaining length field can never complete, yet the decoder waits: {:02x?}",
                        &before[..before.len().min(8)]
                    );
                    if let Header::Complete { remaining, .. } = hdr {
                        ensure!(
                            remaining <= max,
                            format!("over_limit_header_not_rejected:{k}"),
                            "declared remaining length {remaining} exceeds the maximum {max} but the decoder waits for the body"
                        );
                        ensure!(
                            !complete,
                            format!("need_more_on_complete_frame:{k}"),
                            "the declared frame ({} bytes) is completely buffered, yet the decoder asks for more: {:02x?}",
                            before.len(),
                            &before[..before.len().min(32)]
                        );
                    }
                    ensure!(consumed == 0, format!("need_more_consumed_bytes:{k}"), "{consumed} bytes consumed while asking for more: {:02x?}", &before[..before.len().min(32)]);
                    break;
                }
                Out::Error(v, _) => {
                    match hdr {
                        Header::Complete { remaining, header_len, .. } => ensure!(
                            consumed <= header_len + remaining,
                            format!("error_consumed_beyond_frame:{k}"),
                            "{consumed} bytes consumed, declared frame is {} bytes",
                            header_len + remaining
                        ),
                        _ => ensure!(consumed == 0, format!("error_consumed_beyond_frame:{k}"), "{consumed} bytes consumed without a complete header"),
                    }
                    return Ok(Run { packets, end: End::Error(v) });
                }
            }
        }
    }
    Ok(Run { packets, end: End::NeedMore { leftover: buf.len() } })
}

fn ends_equivalent(a: &End, b: &End) -> bool {
    match (a, b) {
        (End::Error(x), End::Error(y)) => x == y || x == "?" || y == "?",
        (End::NeedMore { leftover: x }, End::NeedMore { leftover: y }) => x == y,
        (End::NeedMore { leftover }, End::Eof { clean }) | (End::Eof { clean }, End::NeedMore { leftover }) => (*leftover == 0) == *clean,
        (End::Eof { clean: x }, End::Eof { clean: y }) => x == y,
        _ => false,
    }
}

pub fn split_chunks<'a>(bytes: &'a [u8], cuts: &[usize]) -> Vec<&'a [u8]> {
    let mut cuts: Vec<usize> = cuts.iter().map(|c| (*c).min(bytes.len())).collect();
    cuts.sort_unstable();
    cuts.dedup();
    let mut out = Vec::with_capacity(cuts.len() + 1);
    let mut prev = 0;
    for c in cuts {
        out.push(&bytes[prev..c]);
        prev = c;
    }
    out.push(&bytes[prev..]);
    out
}

fn same_run<P: PartialEq + std::fmt::Debug>(sig: String, what: &str, reference: &Run<P>, got: &Run<P>, bytes: &[u8]) -> Result<(), Failure> {
    let same = reference.packets == got.packets && ends_equivalent(&reference.end, &got.end);
    if !same {
        let first = reference.packets.iter().zip(&got.packets).position(|(a, b)| a != b);
        fail!(
            sig,
            "{what}: one-shot decoding gives {} packets then {:?}; this run gives {} packets then {:?} (first differing packet: {first:?}); stream {:02x?}",
            reference.packets.len(),
            reference.end,
            got.packets.len(),
            got.end,
            &bytes[..bytes.len().min(48)]
        );
    }
    Ok(())
}

/// The C05 oracle on one byte stream for codec `K`
pub fn decode_oracle_k<K: Codec>(max: usize, bytes: &[u8], cuts: &[usize], knob: u8, trace: &mut Trace) -> Result<Run<K::P>, Failure> {
    let k = K::KIND.name();
    let reference = direct_run::<K>(max, &[bytes], Some(trace))?;
    trace.chunkings += 1;
    let chunks = split_chunks(bytes, cuts);
    if chunks.len() > 1 {
        let got = direct_run::<K>(max, &chunks, None)?;
        trace.chunkings += 1;
        same_run(format!("chunking_changes_outcome:{k}"), &format!("split at {cuts:?}"), &reference, &got, bytes)?;
    }
    // every split of a short stream into at most 4 chunks
    let n = bytes.len();
    if (2..=24).contains(&n) {
        for a in 1..n {
            let got = direct_run::<K>(max, &[&bytes[..a], &bytes[a..]], None)?;
            same_run(format!("chunking_changes_outcome:{k}"), &format!("split at [{a}]"), &reference, &got, bytes)?;
            trace.chunkings += 1;
            for b in a + 1..n {
                let got = direct_run::<K>(max, &[&bytes[..a], &bytes[a..b], &bytes[b..]], None)?;
                same_run(format!("chunking_changes_outcome:{k}"), &format!("split at [{a},{b}]"), &reference, &got, bytes)?;
                trace.chunkings += 1;
                for c in b + 1..n {
                    let got = direct_run::<K>(max, &[&bytes[..a], &bytes[a..b], &bytes[b..c], &bytes[c..]], None)?;
                    same_run(format!("chunking_changes_outcome:{k}"), &format!("split at [{a},{b},{c}]"), &reference, &got, bytes)?;
                    trace.chunkings += 1;
                }
            }
        }
    }
    // the codec's own stream driver, one-shot and chunked
    for ch in [vec![bytes], chunks] {
        let got = K::stream_run(max, &ch, knob)?;
        trace.chunkings += 1;
        same_run(format!("stream_driver_differs:{k}"), &format!("stream driver with {} chunks", ch.len()), &reference, &got, bytes)?;
    }
    Ok(reference)
}

/// `decode_oracle(decoder, max, bytes, splits)`: C05 on one byte stream (fuzz entry)
pub fn decode_oracle(kind: Kind, max: usize, bytes: &[u8], splits: &[usize]) -> Result<(), Failure> {
    let mut t = Trace::default();
    crate::with_codec!(kind, K => decode_oracle_k::<K>(max, bytes, splits, 0, &mut t).map(|_| ()))
}

/// Known-finding regions of C05 as a predicate on the input (decoder, maximum, stream):
/// walks the stream frame by frame with the reference framer.
pub fn known_region_c05(kind: Kind, max: usize, bytes: &[u8]) -> Option<&'static str> {
    if kind.ver() != Ver::V5 || !exclusions_enabled() {
        return None;
    }
    let mut o = 0;
    while o < bytes.len() {
        let Header::Complete { byte1, remaining, header_len } = parse_header(&bytes[o..]) else { return None };
        let fl = header_len + remaining;
        if o + fl > bytes.len() || remaining > max {
            return None;
        }
        let frame = &bytes[o..o + fl];
        let nibble = byte1 >> 4;
        if kind == Kind::BrokerV5 && (nibble == 2 || nibble == 11) && remaining >= 1 {
            return Some("broker_v5_connack_unsuback_type");
        }
        if reference::v5_body_varint_cut_off(frame) {
            return Some("v5_body_varint_cut_off_by_frame_end");
        }
        o += fl;
    }
    None
}

// ---------------------------------------------------------------------------------------
// stream drivers

/// tokio_util `Framed` with the client's `Codec` over an in-memory duplex, fed chunk by chunk
pub fn framed_run<K, C>(
    codec: C,
    chunks: &[&[u8]],
    classify: impl Fn(&<C as tokio_util::codec::Decoder>::Error) -> Option<(String, String)>,
) -> Result<Run<K::P>, Failure>
where
    K: Codec,
    C: tokio_util::codec::Decoder<Item = K::P> + tokio_util::codec::Encoder<K::P>,
    <C as tokio_util::codec::Decoder>::Error: std::fmt::Debug,
{
    let k = K::KIND.name();
    let total: usize = chunks.iter().map(|c| c.len()).sum();
    guard(&format!("decode:{k}"), move || {
        let (mut w, r) = tokio::io::duplex(total + 16);
        let mut framed = tokio_util::codec::Framed::new(r, codec);
        let mut packets = Vec::new();
        let mut writer = Some(&mut w);
        let mut next_chunk = 0;
        loop {
            // drain everything the decoder can produce right now
            loop {
                match framed.next().now_or_never() {
                    None => break,
                    Some(None) => return Run { packets, end: End::Eof { clean: true } },
                    Some(Some(Ok(p))) => packets.push(p),
                    Some(Some(Err(e))) => {
                        return match classify(&e) {
                            Some((v, _)) => Run { packets, end: End::Error(v) },
                            None => Run { packets, end: End::Eof { clean: false } },
                        }
                    }
                }
            }
            if next_chunk < chunks.len() {
                let wr = writer.as_mut().unwrap();
                wr.write_all(chunks[next_chunk]).now_or_never().expect("duplex has room").expect("duplex write");
                next_chunk += 1;
            } else if let Some(wr) = writer.take() {
                // peer closes
                let _ = wr.shutdown().now_or_never();
            } else {
                // closed and still pending: cannot happen with an in-memory stream
                return Run { packets, end: End::Error("driver_stuck".into()) };
            }
        }
    })
}

/// rumqttd `Network::read` / `readv` over an in-memory duplex, fed chunk by chunk
pub fn network_run<K, Pr>(proto: Pr, max: usize, chunks: &[&[u8]], knob: u8) -> Result<Run<K::P>, Failure>
where
    K: Codec<P = rumqttd::protocol::Packet>,
    Pr: rumqttd::protocol::Protocol,
{
    use rumqttd::verif::Network;
    let k = K::KIND.name();
    let total: usize = chunks.iter().map(|c| c.len()).sum();
    let buffer_len = [1usize, 2, 3, 1000][(knob % 4) as usize];
    guard(&format!("decode:{k}"), move || {
        let rt = tokio::runtime::Builder::new_current_thread()
            .enable_time()
            .start_paused(true)
            .rng_seed(tokio::runtime::RngSeed::from_bytes(b"c05"))
            .build()
            .expect("runtime");
        rt.block_on(async move {
            let (mut w, r) = tokio::io::duplex(total + 16);
            let mut net = Network::new(Box::new(r), max, buffer_len, proto);
            let mut packets = Vec::new();
            let mut q = std::collections::VecDeque::new();
            let mut writer = Some(&mut w);
            let mut next_chunk = 0;
            loop {
                loop {
                    match net.read().now_or_never() {
                        None => break,
                        Some(Ok(p)) => {
                            packets.push(p);
                            // what the link does after a successful read: drain the buffer
                            loop {
                                match net.readv(&mut q) {
                                    Ok(_) if q.is_empty() => break,
                                    Ok(_) => packets.extend(q.drain(..)),
                                    Err(_) => {
                                        packets.extend(q.drain(..));
                                        return Run { packets, end: End::Error("?".into()) };
                                    }
                                }
                            }
                        }
                        Some(Err(e)) => {
                            // rumqttd's network error type is not exported: classify by its Debug form
                            let d = format!("{e:?}");
                            return if let Some(rest) = d.strip_prefix("Protocol(") {
                                let v: String = rest.chars().take_while(|c| c.is_alphanumeric() || *c == '_').collect();
                                Run { packets, end: End::Error(v) }
                            } else if d.starts_with("Io(") {
                                Run { packets, end: End::Eof { clean: d.contains("ConnectionAborted") } }
                            } else {
                                Run { packets, end: End::Error(format!("unexpected:{d}")) }
                            };
                        }
                    }
                }
                if next_chunk < chunks.len() {
                    writer.as_mut().unwrap().write_all(chunks[next_chunk]).await.expect("duplex write");
                    next_chunk += 1;
                } else if let Some(wr) = writer.take() {
                    let _ = wr.shutdown().await;
                } else {
                    return Run { packets, end: End::Error("driver_stuck".into()) };
                }
            }
        })
    })
}
