//! Boundary-biased generators for the neutral packet model. Everything is built by
//! construction (no filters): each sub-generator only yields values that are well-formed for
//! the protocol version.

use super::adapt::codes;
use super::model::*;
use super::reference;
use crate::engine::Tier;
use proptest::prelude::*;
use proptest::sample::select;

pub fn ver() -> impl Strategy<Value = Ver> {
    prop_oneof![Just(Ver::V4), Just(Ver::V5)]
}

const PATS: &[&str] = &["a", "ab", "a/b", "é", "😀", "aé😀/", "+/#", "$SYS/x", "\u{7f}\u{80}", " ", "日本/語"];

fn pat() -> impl Strategy<Value = String> {
    select(PATS).prop_map(String::from)
}

/// string lengths: mostly short, the 16-bit and 7-bit boundaries common, 64 KiB rare
fn txt_len() -> BoxedStrategy<u32> {
    prop_oneof![
        10 => 0u32..=12,
        5 => select(vec![0u32, 1, 2, 127, 128, 255, 256]),
        4 => 13u32..=300,
        1 => select(vec![65534u32, 65535]),
    ]
    .boxed()
}

pub fn txt() -> BoxedStrategy<Txt> {
    (pat(), txt_len()).prop_map(|(pat, len)| Txt { pat, len }).boxed()
}

/// short strings (property keys, content types)
pub fn txt_short() -> BoxedStrategy<Txt> {
    (pat(), prop_oneof![6 => 0u32..=6, 1 => select(vec![127u32, 128])]).prop_map(|(pat, len)| Txt { pat, len }).boxed()
}

pub fn txt_nonempty() -> BoxedStrategy<Txt> {
    (pat(), txt_len()).prop_map(|(pat, len)| Txt { pat, len: len.max(1) }).boxed()
}

pub fn bin() -> BoxedStrategy<Bin> {
    (
        any::<u8>(),
        prop_oneof![
            8 => 0u32..=40,
            4 => select(vec![0u32, 1, 2, 127, 128, 255, 256]),
            3 => 41u32..=2000,
            1 => select(vec![65534u32, 65535]),
        ],
    )
        .prop_map(|(seed, len)| Bin::Gen { seed, len })
        .boxed()
}

/// payloads may exceed 64 KiB
fn payload() -> BoxedStrategy<Bin> {
    (
        any::<u8>(),
        prop_oneof![
            8 => 0u32..=40,
            4 => select(vec![0u32, 1, 2, 127, 128, 16383, 16384]),
            3 => 41u32..=2000,
            1 => 60_000u32..=70_000,
        ],
    )
        .prop_map(|(seed, len)| Bin::Gen { seed, len })
        .boxed()
}

pub fn pkid() -> BoxedStrategy<u16> {
    prop_oneof![4 => select(vec![1u16, 2, 255, 256, 65534, 65535]), 3 => 1u16..=65535].boxed()
}

fn edge_u16() -> BoxedStrategy<u16> {
    prop_oneof![select(vec![0u16, 1, 255, 256, 65535]), any::<u16>()].boxed()
}
fn edge_u32() -> BoxedStrategy<u32> {
    prop_oneof![select(vec![0u32, 1, 65535, 65536, u32::MAX]), any::<u32>()].boxed()
}

/// subscription identifier: 1..=268435455, biased to the variable-byte-integer width boundaries
pub fn sub_id() -> BoxedStrategy<u32> {
    prop_oneof![
        4 => select(vec![1u32, 127, 128, 16_383, 16_384, 2_097_151, 2_097_152, 268_435_455]),
        1 => 1u32..=268_435_455,
    ]
    .boxed()
}

fn user_props() -> BoxedStrategy<Vec<(Txt, Txt)>> {
    prop::collection::vec((txt_short(), txt()), 0..=5).boxed()
}

/// Which packet a property set belongs to (MQTT 5.0 table 2-4)
#[derive(Clone, Copy, Debug, PartialEq, Eq)]
pub enum PropsOf {
    Connect,
    Will,
    ConnAck,
    Publish,
    Ack,
    Subscribe,
    Unsubscribe,
    Disconnect,
}

/// Every property with a value; `restrict` keeps the ones selected by the mask that the
/// specification allows for the packet type
fn all_props() -> BoxedStrategy<Props> {
    let a = (any::<u8>(), edge_u32(), txt_short(), txt(), bin(), prop::collection::vec(sub_id(), 1..=5), edge_u32());
    let b = (txt(), edge_u16(), txt_short(), bin(), 0u8..=1, edge_u32(), 0u8..=1, txt());
    let c = (txt(), txt(), edge_u16(), edge_u16(), edge_u16(), 0u8..=2, 0u8..=1, user_props());
    let d = (edge_u32(), 0u8..=1, 0u8..=1, 0u8..=1, any::<bool>());
    (a, b, c, d)
        .prop_map(|(a, b, c, d)| Props {
            force_some: d.4,
            payload_format: Some(a.0 & 1),
            message_expiry: Some(a.1),
            content_type: Some(a.2),
            response_topic: Some(a.3),
            correlation_data: Some(a.4),
            subscription_ids: a.5,
            session_expiry: Some(a.6),
            assigned_client_id: Some(b.0),
            server_keep_alive: Some(b.1),
            auth_method: Some(b.2),
            auth_data: Some(b.3),
            request_problem_info: Some(b.4),
            will_delay: Some(b.5),
            request_response_info: Some(b.6),
            response_info: Some(b.7),
            server_reference: Some(c.0),
            reason_string: Some(c.1),
            receive_max: Some(c.2),
            topic_alias_max: Some(c.3),
            topic_alias: Some(c.4),
            max_qos: Some(c.5),
            retain_available: Some(c.6),
            user: c.7,
            max_packet_size: Some(d.0),
            wildcard_sub_available: Some(d.1),
            sub_ids_available: Some(d.2),
            shared_sub_available: Some(d.3),
        })
        .boxed()
}

fn restrict(p: Props, of: PropsOf, mask: u32) -> Props {
    use PropsOf::*;
    let mut bit = 0u32;
    let mut keep = |allowed: bool| {
        let k = allowed && (mask >> bit) & 1 == 1;
        bit += 1;
        k
    };
    macro_rules! f {
        ($field:ident, $($of:pat_param)|*) => {
            if keep(matches!(of, $($of)|*)) { p.$field.clone() } else { Default::default() }
        };
    }
    let mut out = Props {
        force_some: p.force_some,
        payload_format: f!(payload_format, Publish | Will),
        message_expiry: f!(message_expiry, Publish | Will),
        content_type: f!(content_type, Publish | Will),
        response_topic: f!(response_topic, Publish | Will),
        correlation_data: f!(correlation_data, Publish | Will),
        subscription_ids: f!(subscription_ids, Publish | Subscribe),
        session_expiry: f!(session_expiry, Connect | ConnAck | Disconnect),
        assigned_client_id: f!(assigned_client_id, ConnAck),
        server_keep_alive: f!(server_keep_alive, ConnAck),
        auth_method: f!(auth_method, Connect | ConnAck),
        auth_data: f!(auth_data, Connect | ConnAck),
        request_problem_info: f!(request_problem_info, Connect),
        will_delay: f!(will_delay, Will),
        request_response_info: f!(request_response_info, Connect),
        response_info: f!(response_info, ConnAck),
        server_reference: f!(server_reference, ConnAck | Disconnect),
        reason_string: f!(reason_string, ConnAck | Ack | Disconnect),
        receive_max: f!(receive_max, Connect | ConnAck),
        topic_alias_max: f!(topic_alias_max, Connect | ConnAck),
        topic_alias: f!(topic_alias, Publish),
        max_qos: f!(max_qos, ConnAck),
        retain_available: f!(retain_available, ConnAck),
        user: f!(user, Connect | Will | ConnAck | Publish | Ack | Subscribe | Unsubscribe | Disconnect),
        max_packet_size: f!(max_packet_size, Connect | ConnAck),
        wildcard_sub_available: f!(wildcard_sub_available, ConnAck),
        sub_ids_available: f!(sub_ids_available, ConnAck),
        shared_sub_available: f!(shared_sub_available, ConnAck),
    };
    if of == Subscribe {
        out.subscription_ids.truncate(1);
    }
    // a topic alias of 0 is not permitted (MQTT 5.0 §3.3.2.3.4)
    if out.topic_alias == Some(0) {
        out.topic_alias = Some(1);
    }
    out
}

pub fn props(ver: Ver, of: PropsOf) -> BoxedStrategy<Props> {
    if ver == Ver::V4 {
        return Just(Props::default()).boxed();
    }
    let mask = prop_oneof![2 => Just(0u32), 2 => Just(u32::MAX), 5 => any::<u32>(), 1 => (0u32..27).prop_map(|b| 1 << b)];
    (all_props(), mask).prop_map(move |(p, mask)| restrict(p, of, mask)).boxed()
}

fn reason(list: &'static [u8]) -> BoxedStrategy<u8> {
    prop_oneof![1 => Just(list[0]), 2 => select(list)].boxed()
}

fn count_1_40() -> BoxedStrategy<usize> {
    prop_oneof![6 => 1usize..=3, 3 => 4usize..=12, 1 => 13usize..=40, 1 => Just(40usize)].boxed()
}

pub fn connect(ver: Ver) -> BoxedStrategy<M> {
    let will = (txt(), bin(), 0u8..=2, any::<bool>(), props(ver, PropsOf::Will))
        .prop_map(|(topic, message, qos, retain, props)| Will { topic, message, qos, retain, props });
    let login = (txt_nonempty(), prop_oneof![Just(Txt::lit("")), txt()]).prop_map(|(username, password)| Login { username, password });
    (
        edge_u16(),
        txt(),
        any::<bool>(),
        prop::option::weighted(0.5, will),
        prop::option::weighted(0.5, login),
        props(ver, PropsOf::Connect),
    )
        .prop_map(|(keep_alive, client_id, clean, will, login, props)| {
            M::Connect(Connect { keep_alive, client_id, clean, will, login, props })
        })
        .boxed()
}

pub fn connack(ver: Ver) -> BoxedStrategy<M> {
    let list = if ver == Ver::V4 { codes::CONNACK_V4 } else { codes::CONNACK_V5 };
    (any::<bool>(), reason(list), props(ver, PropsOf::ConnAck))
        .prop_map(|(sp, code, props)| M::ConnAck(ConnAck { session_present: sp && code == 0, code, props }))
        .boxed()
}

pub fn publish(ver: Ver) -> BoxedStrategy<M> {
    (any::<bool>(), 0u8..=2, any::<bool>(), txt(), pkid(), payload(), props(ver, PropsOf::Publish))
        .prop_map(|(dup, qos, retain, topic, pkid, payload, props)| {
            M::Publish(Publish { dup, qos, retain, topic, pkid: if qos == 0 { 0 } else { pkid }, payload, props })
        })
        .boxed()
}

/// which = 4..=7 (PUBACK, PUBREC, PUBREL, PUBCOMP)
pub fn ack(ver: Ver, which: u8) -> BoxedStrategy<M> {
    let list = if which == 4 || which == 5 { codes::PUBACK } else { codes::PUBREL };
    let r = if ver == Ver::V4 { Just(0u8).boxed() } else { reason(list) };
    (pkid(), r, props(ver, PropsOf::Ack))
        .prop_map(move |(pkid, reason, props)| {
            let a = Ack { pkid, reason, props };
            match which {
                4 => M::PubAck(a),
                5 => M::PubRec(a),
                6 => M::PubRel(a),
                _ => M::PubComp(a),
            }
        })
        .boxed()
}

pub fn subscribe(ver: Ver) -> BoxedStrategy<M> {
    let v5 = ver == Ver::V5;
    let filter = (txt(), 0u8..=2, any::<bool>(), any::<bool>(), 0u8..=2).prop_map(move |(path, qos, nl, rap, rh)| Filter {
        path,
        qos,
        nolocal: nl && v5,
        preserve_retain: rap && v5,
        retain_rule: if v5 { rh } else { 0 },
    });
    (pkid(), count_1_40().prop_flat_map(move |n| prop::collection::vec(filter.clone(), n)), props(ver, PropsOf::Subscribe))
        .prop_map(|(pkid, filters, props)| M::Subscribe(Subscribe { pkid, filters, props }))
        .boxed()
}

pub fn suback(ver: Ver) -> BoxedStrategy<M> {
    let list = if ver == Ver::V4 { codes::SUBACK_V4 } else { codes::SUBACK_V5 };
    (pkid(), count_1_40().prop_flat_map(move |n| prop::collection::vec(select(list), n)), props(ver, PropsOf::Ack))
        .prop_map(|(pkid, codes, props)| M::SubAck(SubAck { pkid, codes, props }))
        .boxed()
}

pub fn unsubscribe(ver: Ver) -> BoxedStrategy<M> {
    (pkid(), count_1_40().prop_flat_map(|n| prop::collection::vec(txt(), n)), props(ver, PropsOf::Unsubscribe))
        .prop_map(|(pkid, filters, props)| M::Unsubscribe(Unsubscribe { pkid, filters, props }))
        .boxed()
}

pub fn unsuback(ver: Ver) -> BoxedStrategy<M> {
    if ver == Ver::V4 {
        return pkid().prop_map(|pkid| M::UnsubAck(UnsubAck { pkid, reasons: vec![], props: Props::default() })).boxed();
    }
    (pkid(), count_1_40().prop_flat_map(|n| prop::collection::vec(select(codes::UNSUBACK), n)), props(ver, PropsOf::Ack))
        .prop_map(|(pkid, reasons, props)| M::UnsubAck(UnsubAck { pkid, reasons, props }))
        .boxed()
}

pub fn disconnect(ver: Ver) -> BoxedStrategy<M> {
    if ver == Ver::V4 {
        return Just(M::Disconnect(Disconnect { reason: 0, props: Props::default() })).boxed();
    }
    (reason(codes::DISCONNECT), props(ver, PropsOf::Disconnect))
        .prop_map(|(reason, props)| M::Disconnect(Disconnect { reason, props }))
        .boxed()
}

/// Any packet of the version; weights favour the packets with many fields
pub fn packet(ver: Ver) -> BoxedStrategy<M> {
    prop_oneof![
        6 => connect(ver),
        4 => connack(ver),
        10 => publish(ver),
        2 => ack(ver, 4),
        2 => ack(ver, 5),
        2 => ack(ver, 6),
        2 => ack(ver, 7),
        5 => subscribe(ver),
        3 => suback(ver),
        3 => unsubscribe(ver),
        2 => unsuback(ver),
        1 => Just(M::PingReq),
        1 => Just(M::PingResp),
        3 => disconnect(ver),
    ]
    .boxed()
}

/// Remaining-length targets: every width boundary of the variable byte integer ± 2
pub fn rl_targets(huge: bool) -> Vec<usize> {
    let mut v = Vec::new();
    for b in [128usize, 16_384] {
        v.extend(b - 3..=b + 2);
    }
    if huge {
        v.extend(2_097_152 - 3..=2_097_152 + 2);
    }
    v
}

/// Resizes one designated variable-length field of `m` so that the remaining length becomes
/// `target` (payload, client id, last filter, or — v5 — the reason string). Returns `m`
/// unchanged when the packet type has no such field or the field cannot take the size.
pub fn stretch(ver: Ver, mut m: M, target: usize) -> M {
    let orig = m.clone();
    for _ in 0..5 {
        let cur = reference::remaining_len(ver, &m);
        if cur == target {
            return m;
        }
        let delta = target as i64 - cur as i64;
        let ok = match &mut m {
            M::Publish(p) => {
                let n = p.payload.len() as i64 + delta;
                if n < 0 {
                    false
                } else {
                    p.payload = Bin::Gen { seed: 7, len: n as u32 };
                    true
                }
            }
            M::Connect(c) => resize(&mut c.client_id, delta),
            M::Subscribe(s) => resize(&mut s.filters.last_mut().unwrap().path, delta),
            M::Unsubscribe(u) => resize(u.filters.last_mut().unwrap(), delta),
            M::PingReq | M::PingResp => false,
            other => {
                if ver == Ver::V4 {
                    false
                } else {
                    let p = other.props_mut().unwrap();
                    match &mut p.reason_string {
                        Some(t) => resize(t, delta),
                        None => {
                            p.reason_string = Some(Txt::lit(""));
                            true
                        }
                    }
                }
            }
        };
        if !ok {
            return orig;
        }
    }
    if reference::remaining_len(ver, &m) == target {
        m
    } else {
        orig
    }
}

fn resize(t: &mut Txt, delta: i64) -> bool {
    let n = t.len as i64 + delta;
    if !(0..=65535).contains(&n) {
        return false;
    }
    t.len = n as u32;
    true
}

/// (version, packet), about 40 % of them stretched onto a remaining-length boundary
pub fn versioned_packet(_tier: Tier) -> BoxedStrategy<(Ver, M)> {
    let targets = rl_targets(false);
    ver()
        .prop_flat_map(move |v| (Just(v), packet(v), prop::option::weighted(0.4, select(targets.clone()))))
        .prop_map(|(v, m, t)| match t {
            Some(t) => (v, stretch(v, m, t)),
            None => (v, m),
        })
        .boxed()
}

/// PUBLISH packets whose remaining length sits on the 3/4-byte width boundary (2 MiB)
pub fn huge_publish() -> BoxedStrategy<(Ver, M)> {
    let targets: Vec<usize> = (2_097_152 - 3..=2_097_152 + 2).collect();
    ver()
        .prop_flat_map(move |v| (Just(v), publish(v), select(targets.clone())))
        .prop_map(|(v, m, t)| {
            // keep the other fields small so that the payload takes the size
            (v, stretch(v, m, t))
        })
        .boxed()
}
