//! C03: bytes -> history of the broker simulator over the widest op alphabet; oracle: no panic
//! in any router turn, slab alignment, quiescence, liveness probe (as props/c03.rs).
#![no_main]
use arbitrary::Unstructured;
use libfuzzer_sys::fuzz_target;
use vcheck::brokersim::observe::Flags;
use vcheck::brokersim::run::run_history;
use vcheck::brokersim::types::*;
use vcheck::engine::Obs;

const TOPICS: &[&str] = &["a", "a/b", "b", "é/x", "$SYS/x", "", "a/+", "#", "😀"];
const FILTERS: &[&str] = &["a", "a/+", "a/#", "#", "+", "$share/g1/a/#", "$share/g2/#", "$share/", "$x", "", "é/+", "a/#/b"];

fn op(u: &mut Unstructured, n: usize) -> arbitrary::Result<Op> {
    let c = u.int_in_range(0..=n - 1)?;
    Ok(match u.int_in_range(0u8..=23)? {
        0 => Op::Connect { c, clean: u.arbitrary()?, will: if u.arbitrary()? { Some(Will { topic: u.choose(TOPICS)?.to_string(), qos: u.int_in_range(0..=2)?, retain: u.arbitrary()?, size: 6 }) } else { None }, alias_max: if u.arbitrary()? { 10 } else { 0 } },
        1 | 2 => Op::Subscribe { c, filters: vec![(u.choose(FILTERS)?.to_string(), u.int_in_range(0..=2)?)], sub_id: if u.arbitrary()? { Some(u.int_in_range(0..=3)?) } else { None }, notify: u.arbitrary()? },
        3 => Op::Unsubscribe { c, filters: vec![u.choose(FILTERS)?.to_string()], notify: u.arbitrary()? },
        4..=7 => Op::Publish { c, topic: u.choose(TOPICS)?.to_string(), qos: u.int_in_range(0..=2)?, retain: u.arbitrary()?, size: u.int_in_range(0..=40)?, props: None, notify: u.arbitrary()? },
        8 => Op::Release { c, notify: true },
        9 => Op::Disconnect { c, notify: true },
        10 => Op::DropLink { c },
        11 => Op::Turn { n: u.int_in_range(1..=3)? },
        12 => Op::Drain { c },
        13 => Op::Ack { c, n: u.int_in_range(1..=200)? },
        14 => Op::Ready { c },
        15 => Op::Settle,
        16 => Op::PublishWill { c },
        17 => Op::Raw { c, pkt: match u.int_in_range(0u8..=6)? {
            0 => Raw::PubAck(u.int_in_range(0..=101)?),
            1 => Raw::PubRec(u.int_in_range(0..=101)?),
            2 => Raw::PubRel(u.int_in_range(0..=101)?),
            3 => Raw::PubComp(u.int_in_range(0..=101)?),
            4 => {
                let n = u.int_in_range(0..=6)?;
                Raw::PublishBytes { topic: u.bytes(n)?.to_vec(), qos: u.int_in_range(0..=2)?, retain: u.arbitrary()? }
            }
            5 => {
                let n = u.int_in_range(0..=8)?;
                Raw::Subscribe { filter: String::from_utf8_lossy(u.bytes(n)?).to_string(), qos: u.int_in_range(0..=2)?, sub_id: None }
            }
            _ => Raw::Connect,
        }, notify: true },
        18 => Op::Stale { id: *u.choose(&[0usize, 1, 2, 3, 7, 1_000_000, usize::MAX])?, kind: u.int_in_range(0..=3)? },
        19 => Op::Zombie { c, kind: u.int_in_range(0..=2)? },
        20 => Op::Tick { alerts: u.arbitrary()? },
        21 => Op::NewMeter { keep: u.arbitrary()? },
        22 => Op::Shadow { c, filter: u.choose(FILTERS)?.to_string() },
        _ => Op::Notify { c },
    })
}

fuzz_target!(|data: &[u8]| {
    let mut u = Unstructured::new(data);
    let n = 3usize;
    let cfg = Cfg {
        seg_size: *u.choose(&[1024usize, 2048, 65536]).unwrap_or(&1024),
        seg_count: u.int_in_range(1..=4).unwrap_or(2),
        max_out: *u.choose(&[1u64, 2, 5, 200]).unwrap_or(&200),
        max_conn: 8,
        strategy: u.int_in_range(0..=2).unwrap_or(0),
    };
    let clients = (0..n)
        .map(|i| ClientSpec { id: format!("c{i}"), auto_ack: i != 1, auto_ready: i != 2, v5: i == 0, dynamic_filters: false })
        .collect();
    let mut ops = vec![
        Op::Connect { c: 0, clean: u.arbitrary().unwrap_or(true), will: None, alias_max: 0 },
        Op::Connect { c: 1, clean: u.arbitrary().unwrap_or(true), will: None, alias_max: 0 },
        Op::Turn { n: 1 },
    ];
    while !u.is_empty() && ops.len() < 300 {
        match op(&mut u, n) {
            Ok(o) => ops.push(o),
            Err(_) => break,
        }
    }
    let h = Hist { cfg, clients, ops };
    let flags = Flags { slabs: true, liveness_probe: true, witnesses: Some(vec![]), ..Flags::default() };
    let mut obs = Obs::default();
    if let Err(f) = run_history(&h, &flags, &mut obs) {
        panic!("C03 violated: {} :: {} :: {}", f.signature, f.detail, serde_json::to_string(&h).unwrap_or_default());
    }
});
