//! C13: bytes -> op sequence on CommitLog (hand decoding through `arbitrary::Unstructured`);
//! same interpreter and model as the proptest campaign.
#![no_main]
use arbitrary::Unstructured;
use libfuzzer_sys::fuzz_target;
use vcheck::commitlog::{run_case, Case, Op};
use vcheck::engine::Obs;

fuzz_target!(|data: &[u8]| {
    let mut u = Unstructured::new(data);
    let seg_size = *u.choose(&[1024usize, 1500, 4096]).unwrap_or(&1024);
    let max_segs = u.int_in_range(1..=5).unwrap_or(1);
    let mut ops = Vec::new();
    while !u.is_empty() && ops.len() < 400 {
        let Ok(k) = u.int_in_range(0u8..=9) else { break };
        let op = match k {
            0..=3 => Op::Append { size: u.int_in_range(1u32..=64).unwrap_or(1) },
            4 => Op::Append { size: u.int_in_range(400u32..=1100).unwrap_or(400) },
            5 => Op::Append { size: u.int_in_range(1025u32..=6000).unwrap_or(1025) },
            6 => Op::AppendFill { delta: u.arbitrary().unwrap_or(0) },
            _ => Op::Read { sel: u.arbitrary().unwrap_or(0), pick: u.arbitrary().unwrap_or(0), len_ix: u.int_in_range(0u8..=7).unwrap_or(0) },
        };
        ops.push(op);
    }
    let case = Case { seg_size, max_segs, ops };
    let mut obs = Obs::default();
    if let Err(f) = run_case(&case, &mut obs) {
        panic!("C13 violated: {} :: {} :: {}", f.signature, f.detail, serde_json::to_string(&case).unwrap_or_default());
    }
});
