//! C05 under libFuzzer: bytes -> (decoder, max, split points, stream); the oracle is the one of
//! the proptest campaigns (harness/src/codec/oracle.rs `decode_oracle`). A violated clause
//! aborts with the failure text; the crashing input is then replayed through `vcheck`.
#![no_main]
use libfuzzer_sys::fuzz_target;
use vcheck::codec::Kind;

fuzz_target!(|data: &[u8]| {
    if data.len() < 4 {
        return;
    }
    let kind = [Kind::ClientV4, Kind::ClientV5, Kind::BrokerV4, Kind::BrokerV5][(data[0] & 3) as usize];
    let max = [0usize, 1, 2, 127, 128, 1024, 1 << 20, usize::MAX][(data[1] & 7) as usize];
    let nsplit = (data[2] & 3) as usize;
    let body = &data[3..];
    if body.len() < nsplit {
        return;
    }
    let (sp, stream) = body.split_at(nsplit);
    let splits: Vec<usize> = sp.iter().map(|b| *b as usize % (stream.len() + 1)).collect();
    if let Err(f) = vcheck::codec::oracle::decode_oracle(kind, max, stream, &splits) {
        panic!("C05 violated: {} :: {}", f.signature, f.detail);
    }
});
