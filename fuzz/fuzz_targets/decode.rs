//! libFuzzer front end of the `decode` target; decoding and oracle live in the harness library
//! (harness/src/fuzzdec.rs) so that a crashing input can be replayed through `vcheck --replay`.
#![no_main]
use libfuzzer_sys::fuzz_target;

fuzz_target!(|data: &[u8]| {
    if let Err(f) = vcheck::fuzzdec::run_target("decode", data) {
        panic!("property violated: {} :: {}", f.signature, f.detail);
    }
});
