//! C12: bytes -> (topic, filter) strings; same oracle as the proptest campaign.
#![no_main]
use libfuzzer_sys::fuzz_target;

fuzz_target!(|data: &[u8]| {
    let Ok(s) = std::str::from_utf8(data) else { return };
    let (topic, filter) = match s.split_once('\n') {
        Some(x) => x,
        None => (s, ""),
    };
    for x in [topic, filter] {
        if let Err(f) = vcheck::props::c12::check_string(x) {
            panic!("C12 violated: {} :: {}", f.signature, f.detail);
        }
    }
    if let Err(f) = vcheck::props::c12::check_pair(topic, filter) {
        panic!("C12 violated: {} :: {}", f.signature, f.detail);
    }
});
