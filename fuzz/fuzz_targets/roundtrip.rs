//! C04 in the reverse direction: arbitrary bytes -> every decoder that accepts them must
//! re-encode to bytes that decode to the same packet (oracle `roundtrip_from_bytes`).
#![no_main]
use libfuzzer_sys::fuzz_target;

fuzz_target!(|data: &[u8]| {
    let accepted = std::cell::Cell::new(0u32);
    if let Err(f) = vcheck::codec::oracle::roundtrip_from_bytes(data, &accepted) {
        panic!("C04 violated: {} :: {}", f.signature, f.detail);
    }
});
